#!/usr/bin/env python3
"""print the prompt for a seeding sub-agent: only the property text + its scratch worktree (nothing from /verif)"""
import json, sys
pid = sys.argv[1]
wt = f"/tmp/seed/{pid}"
p = next(json.loads(l) for l in open("/verif/properties.jsonl") if json.loads(l)["id"] == pid)
print(f"""You are testing how robust a project's safety net is. The project is jj-vcs/jj (Jujutsu, a Git-compatible VCS written in Rust). You have your own scratch git worktree of it at {wt} (a detached checkout; build output directory {wt}/target is pre-populated, so use CARGO_TARGET_DIR={wt}/target and always pass --offline; there is no network). Disk space is tight: export CARGO_INCREMENTAL=0 before every cargo command and do not keep extra copies of the target directory. Work ONLY inside {wt}. Never read or write anything under /repo or /verif, and do not create other worktrees.

The semantic property under test:

  Title: {p['title']}
  Statement: {p['statement']}
  Quantified over: {', '.join(p['quantifier']['over'])} -- {p['quantifier']['text']}

Your task: produce ONE (or, if time permits, TWO independent, clearly different) small source change(s) to jj (under {wt}/lib/src, {wt}/cli/src or {wt}/core/src) that BREAKS this property while still compiling and while the EXISTING test suite still passes. The change must be realistic -- the kind of plausible-looking refactor, optimisation, reordering, dropped check, or off-by-one a real contributor could make -- and it must need something SPECIFIC to manifest: a particular interleaving of processes, a crash/fault at a particular point, a multi-step sequence of operations, an unusual input, or two cooperating sites that each look fine alone. Do NOT produce a change that ordinary use or the existing tests would expose at once. Do not add cfg flags, environment-variable switches or 'if cfg!(test)' tricks; do not touch tests, Cargo files or build scripts as part of the change.

For each change, also write a DEMONSTRATION: a new Rust test (e.g. a new file under {wt}/lib/tests/ registered the way the existing ones are, or a #[test] added to an existing test file, or a small shell script driving the built `jj` binary) that FAILS with your change applied and PASSES without it, showing the property really is violated at the level of observable behaviour.

Procedure you must follow and report:
 1. Read the relevant code. Decide on the change. Apply it.
 2. Build: cd {wt} && CARGO_TARGET_DIR={wt}/target cargo build --offline -p jj-cli  (and cargo test --no-run for what you need).
 3. Run the existing tests that exercise the area, then the whole suite once: cd {wt} && CARGO_TARGET_DIR={wt}/target cargo nextest run --workspace --offline --no-fail-fast 2>&1 | tail -30  (if nextest is unavailable: cargo test --workspace --offline). ALL existing tests must still pass with your change (ignore tests that also fail on the unmodified tree; check by reverting your change with `git apply -R` if in doubt; NEVER use `git stash` -- the stash is shared with other worktrees). If a test fails, refine the change until none does.
 4. Show the demonstration failing with the change and passing without it (save your source change with `git diff > change.patch`, revert it with `git apply -R change.patch`, keep the demo, rerun; do NOT use git stash).
 5. Save deliverables in {wt}/out/<name>/ for each change (name = short kebab-case):
      patch.diff   = `git diff` of the SOURCE change only (not the demo test)
      demo.diff    = `git diff` (or the new files) of the demonstration only, plus how to run it
      notes.md     = what the change does, why the property breaks, what specific circumstances are needed for it to manifest, which commands you ran and their results (test counts), and the exact command that runs the demo.
 6. Leave the worktree with the change reverted (git checkout -- . ; remove untracked demo files after saving them in out/).

Keep the change minimal (a few lines). Prefer changes in the mechanism that is supposed to make the property hold rather than in unrelated code. Your final message should list the deliverable directories and a two-line summary of each change.""")
