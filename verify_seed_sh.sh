#!/bin/bash
# verify_seed_sh.sh <worktree> <seed out dir> [subset args]  -- for seeds whose demo is a shell script (demo.sh, JJ=binary)
set -u
WT=$1; SD=$2; shift 2
export CARGO_TARGET_DIR=$WT/target CARGO_NET_OFFLINE=true
cd $WT && git checkout -q -- . && git clean -fdq -e out -e target
cargo build --offline -p jj-cli 2>&1 | tail -1
JJ=$WT/target/debug/jj bash $SD/demo.sh > $SD/verify_without.txt 2>&1; echo "DEMO_WITHOUT_CHANGE_EXIT=$?"
git apply $SD/patch.diff || { echo PATCH-APPLY-FAILED; exit 2; }
cargo build --offline -p jj-cli 2>&1 | tail -1
JJ=$WT/target/debug/jj bash $SD/demo.sh > $SD/verify_with.txt 2>&1; echo "DEMO_WITH_CHANGE_EXIT=$?"
tail -5 $SD/verify_with.txt
echo "== existing tests with the change ($*)"
cargo nextest run --offline --no-fail-fast "$@" 2>&1 | grep -E "^\s+(FAIL|Summary)|tests run" | sort | uniq -c | sort -rn | head -40
git checkout -q -- . && git clean -fdq -e out -e target
cargo build --offline -p jj-cli 2>&1 | tail -1
