"""C31  Fileset expressions select the paths their definition says (translation table expression -> matcher).

Which paths a leaf matcher selects is value-level (not decided).  The translation of the expression tree is a table:
a. build_union_matcher maps every FilesetExpression variant to the matcher of the same meaning: None -> NothingMatcher,
   All -> EverythingMatcher, Intersection(a, b) -> IntersectionMatcher(m(a), m(b)), Difference(a, b) ->
   DifferenceMatcher(wanted = m(a), unwanted = m(b)), UnionAll -> recursion, Pattern -> one of four accumulators
b. every FilePattern variant goes to the accumulator of its kind, and each accumulator is finalised by the matching
   constructor: FilePath -> FilesMatcher, PrefixPath -> PrefixMatcher, FileGlob -> GlobsMatcher built with
   prefix_paths(false), PrefixGlob -> GlobsMatcher built with prefix_paths(true)
c. the expression constructors keep operand order (difference(self, other) = Difference(self, other)) and `~x` resolves
   to all().difference(x); the operators of the grammar map to the constructors of the same name
"""
import re

from jjv.lib import (name_matches, op_place, referent_place, show, strip, term_calls, walk)

FS = "jj_lib::fileset::"
M = "jj_lib::matchers::"
EXPR = FS + "FilesetExpression"
PAT = FS + "FilePattern"


def follow_moves(b, local, depth=0):
    """_t = move _x (single definition) -> _x"""
    defs, _ = b.defs
    ds = [d for d in defs.get(local, ()) if d[2] == "assign"]
    if depth < 6 and len(ds) == 1 and ds[0][3]["k"] == "use":
        p = op_place(ds[0][3]["o"])
        if p is not None and len(p) == 1:
            return follow_moves(b, p[0], depth + 1)
    return local


def region(b, bb, variant, variants):
    e = b.variant_edge(bb, variant)
    others = [b.variant_edge(bb, v) for v in variants if v != variant]
    others = [o for o in others if o is not None and o != e]
    return b.reachable_from([e], avoid=others) if e is not None else set()


def run(ctx):
    F = ctx.F
    ctx.explanation = (
        "Per-variant reachability table on the MIR of fileset::build_union_matcher: for each variant edge of the switch on "
        "FilesetExpression (and of the nested switch on FilePattern) the matcher constructors / accumulator pushes that are "
        "reachable before the arms re-join are compared with the meaning of the variant; the arguments of "
        "IntersectionMatcher::new / DifferenceMatcher::new derive from the first / second payload of the variant in that "
        "order; the two glob builders are created with prefix_paths(false) / prefix_paths(true) and receive FileGlob / "
        "PrefixGlob; the accumulators are finalised by FilesMatcher::new / PrefixMatcher::new / build(); "
        "FilesetExpression::difference/intersection keep operand order and unary negation is all().difference(x).")
    ctx.clauses = ["expression variant -> matcher of the same meaning", "pattern kind -> matcher of the same kind",
                   "operand order of difference / negation"]
    ctx.not_decided = ["which paths each leaf matcher selects (value-level, C30's undecided part)",
                       "cwd/workspace-relative path resolution of patterns (C32)", "glob case-sensitivity"]
    b = F.body(FS + "build_union_matcher")
    if not ctx.anchor("C31.a", "build_union_matcher", [b] if b is not None else [], 1):
        return
    ctx.fn_seen(b.id)
    sl = F.slicer(b.id)
    sw_e = sw_p = None
    for bb, t in b.switches():
        ds = b.discr_source(bb)
        if ds and ds[1] == EXPR:
            sw_e = (bb, ds)
        elif ds and ds[1] == PAT:
            sw_p = (bb, ds)
    if not ctx.anchor("C31.a", "switches on FilesetExpression / FilePattern", [x for x in (sw_e, sw_p) if x], 2):
        return
    ev = list(sw_e[1][2].values())
    pv = list(sw_p[1][2].values())
    want_e = {"None", "All", "Pattern", "UnionAll", "Intersection", "Difference"}
    ctx.ob("C31.a/expression-variants-known", EXPR, set(ev) == want_e, f"variants {sorted(ev)}" if set(ev) == want_e else
           f"FilesetExpression has variants {sorted(ev)}; the rule table knows {sorted(want_e)}")
    want_p = {"FilePath", "PrefixPath", "FileGlob", "PrefixGlob"}
    ctx.ob("C31.b/pattern-variants-known", PAT, set(pv) == want_p, f"variants {sorted(pv)}" if set(pv) == want_p else
           f"FilePattern has variants {sorted(pv)}; the rule table knows {sorted(want_p)}")

    def ctor_in(reg):
        out = set()
        for i in reg:
            if i >= b.n or b.blocks[i].get("c"):
                continue
            for st in b.blocks[i]["s"]:
                rv = st["r"]
                if rv["k"] == "agg" and str(rv.get("adt", "")).startswith(M):
                    out.add(rv["adt"].split("::")[-1])
            t = b.blocks[i]["t"]
            if t["k"] == "call":
                f = t["f"].get("r") or t["f"].get("d") or ""
                mm = re.match(r"^jj_lib::matchers::(\w+)(::<[^>]*>)?::new$", f)
                if mm:
                    out.add(mm.group(1))
                if f == FS + "build_union_matcher":
                    out.add("recurse")
        return out
    # the arms re-join at the push into `matchers`; cut the regions there
    expect = {"None": {"NothingMatcher"}, "All": {"EverythingMatcher"}, "UnionAll": {"recurse"},
              "Intersection": {"recurse", "IntersectionMatcher"}, "Difference": {"recurse", "DifferenceMatcher"}}
    # the arms re-join in the loop: cut the regions at the loop's next() so that post-loop code is not attributed to an arm
    joins = {c.bb for c in b.calls if not c.cleanup and name_matches(c.res or "", "re:slice::Iter<'a, T> as std::iter::Iterator>::next$")}
    for v, want in expect.items():
        e = b.variant_edge(sw_e[0], v)
        others = [b.variant_edge(sw_e[0], o) for o in ev if o != v]
        reg = b.reachable_from([e], avoid=[o for o in others if o is not None] + list(joins)) if e is not None else set()
        got = ctor_in(reg) - {"GlobsMatcher"}
        ctx.ob("C31.a/variant-to-matcher", v, got == want, f"{v} -> {sorted(got)}" if got == want else
               f"FilesetExpression::{v} is translated to {sorted(got)} instead of {sorted(want)}")
    # operand order of the binary nodes
    for ctor, v in (("IntersectionMatcher", "Intersection"), ("DifferenceMatcher", "Difference")):
        cs = b.calls_to(f"re:^jj_lib::matchers::{ctor}::<M1, M2>::new$")
        if not ctx.anchor("C31.a", f"{ctor}::new", cs, 1):
            continue
        c = cs[0]
        idx = []
        for k in (0, 1):
            t = sl.call_arg(c, k)
            f = None
            for w in walk(t):
                if w[0] == "field" and isinstance(w[1], tuple) and str(w[3]) in ("0", "1") and any(
                        y[0] == "variant" and y[2] == v for y in walk(w[1])):
                    f = str(w[3])
                    break
            idx.append(f)
        ok = idx == ["0", "1"]
        ctx.ob("C31.a/operand-order", ctor, ok, f"{ctor}::new(m({v}.0), m({v}.1))" if ok else
               f"{ctor}::new receives the payloads of {v} as {idx}: "
               + ("the wanted and the excluded set are exchanged" if ctor == "DifferenceMatcher" else "operands not from the node"),
               where=c.where())
    # b. pattern kinds
    pushes = {}
    for c in b.calls:
        if c.cleanup:
            continue
        n = c.res or c.decl or ""
        if name_matches(n, "re:Vec::<.*>::push$|GlobsMatcherBuilder::<'a>::add$"):
            pushes[c.bb] = (c, n)
    builders = {}
    for c in b.calls:
        if not c.cleanup and (c.res or c.decl or "").endswith("GlobsMatcherBuilder::<'a>::prefix_paths"):
            flag = strip(sl.call_arg(c, 1))
            builders[c.bb] = flag[1] if isinstance(flag, tuple) and flag[0] == "const" else None
    for v in want_p & set(pv):
        reg = region(b, sw_p[0], v, pv)
        sites = [pushes[i] for i in reg if i in pushes]
        # first accumulator touched in this arm
        desc = None
        for c, n in sorted(sites, key=lambda s: s[0].bb)[:1]:
            recv = sl.call_arg(c, 0)
            txt = show(recv)
            if n.endswith("::add"):
                # which builder: the one created with prefix_paths(true|false)
                flags = {builders.get(x[3][1]) for x in term_calls(recv) if x[3] and x[3][1] in builders}
                desc = ("globs", next(iter(flags)) if len(flags) == 1 else None)
            else:
                desc = ("vec", txt)
        want = {"FilePath": "files", "PrefixPath": "prefix", "FileGlob": ("globs", False), "PrefixGlob": ("globs", True)}[v]
        if isinstance(want, tuple):
            ok = desc == want
        else:
            ok = desc is not None and desc[0] == "vec"
        ctx.ob("C31.b/pattern-to-accumulator", v, ok,
               f"{v} -> {'glob builder with prefix_paths(%s)' % want[1] if isinstance(want, tuple) else 'path list'}" if ok else
               f"FilePattern::{v} is accumulated into {desc}")
    # path lists -> the right constructor: FilesMatcher::new(list fed by FilePath), PrefixMatcher::new(list fed by PrefixPath)
    for ctor, v in (("FilesMatcher", "FilePath"), ("PrefixMatcher", "PrefixPath")):
        cs = b.calls_to(f"re:^jj_lib::matchers::{ctor}::new$")
        ok = False
        if cs:
            lp = op_place(cs[0].args[0])
            reg = region(b, sw_p[0], v, pv)
            fed = set()
            for i in reg:
                if i in pushes and pushes[i][1].endswith("::push"):
                    rp = referent_place(b, pushes[i][0].args[0])
                    if rp:
                        fed.add(rp[0])
            ok = lp is not None and follow_moves(b, lp[0]) in fed
        ctx.ob("C31.b/accumulator-to-matcher", ctor, ok, f"{ctor}::new(paths collected from FilePattern::{v})" if ok else
               f"{ctor} is not built from the paths of FilePattern::{v}")
    # c. constructors and negation
    for fn, v in (("difference", "Difference"), ("intersection", "Intersection")):
        fb = F.body(EXPR + "::" + fn)
        if not ctx.anchor("C31.c", EXPR + "::" + fn, [fb] if fb is not None else [], 1):
            continue
        ctx.fn_seen(fb.id)
        fsl = F.slicer(fb.id)
        ok = False
        for i, blk in enumerate(fb.blocks):
            for st in blk["s"]:
                rv = st["r"]
                if rv["k"] == "agg" and rv.get("adt") == EXPR and rv.get("v") == v:
                    p0 = [l[2] for l in walk(fsl.operand(rv["o"][0], at=i)) if l[0] == "param"]
                    p1 = [l[2] for l in walk(fsl.operand(rv["o"][1], at=i)) if l[0] == "param"]
                    ok = p0 == ["self"] and p1 == ["other"]
        ctx.ob("C31.c/constructor-keeps-order", fn, ok, f"{fn}(self, other) = {v}(self, other)" if ok else
               f"FilesetExpression::{fn} does not build {v}(self, other)")
    neg = [c for c in F.all_calls_to(EXPR + "::difference", crates=("jj_lib",)) if not c.cleanup and c.body.root.startswith(FS)]
    okn = False
    for c in neg:
        s2 = F.slicer(c.body.id)
        if any(x[1] == EXPR + "::all" for x in term_calls(s2.call_arg(c, 0))):
            okn = not any(x[1] == EXPR + "::all" for x in term_calls(s2.call_arg(c, 1)))
            ctx.fn_seen(c.body.id)
    ctx.ob("C31.c/negation-is-all-minus-x", FS + "resolve", okn, "~x = all().difference(x)" if okn else
           "unary negation is not resolved to all().difference(x)")
