"""C46  Evolution history is complete and acyclic (recording side).

a. every commit written through the builder records its predecessors (shared with C11.a); Store::write_commit is
   reached in jj-lib only from commit_builder::write_to_store
b. acyclicity guard: set_predecessors is dominated by the `index.has_id(new id)` test whose true edge returns Err
c. MutableRepo.commit_predecessors is only inserted into (set_predecessors) and moved out (consume): never cleared
d. Transaction::write stores Some(<predecessors returned by consume()>) in the operation
e. the only other recorder (git import) goes through the same set_predecessors
f. walking side, structural part: walk_predecessors visits the whole operation DAG above the repo's operation
   (op_walk::walk_ancestors, not a first-parent chain), starts from exactly the given commits, looks predecessors up with
   Operation::predecessors_for_commit, emits remaining commits when the operations are exhausted, reports a cycle as an
   error from the topological sort instead of looping, and never drops a queued entry
"""
from jjv.lib import (bodies_with, body_accesses, bool_edges, find_ok_nodes, name_matches, norm, place_has_field, show,
                     strip, term_calls, walk)
from rules import C11

MR = "jj_lib::repo::MutableRepo::"
DCB = "jj_lib::commit_builder::DetachedCommitBuilder::"


def run(ctx):
    F = ctx.F
    ctx.explanation = (
        "Recording-side rules: every Ok return of DetachedCommitBuilder::write passes "
        "set_predecessors(new id, builder.predecessors); Store::write_commit has a single caller in jj-lib "
        "(commit_builder::write_to_store), itself called only by the builder; set_predecessors in write is dominated "
        "by the false edge of Index::has_id(new id) (an existing commit is never re-recorded as new, which would close "
        "a cycle); commit_predecessors is mutated only by insert in set_predecessors and moved out by consume; "
        "Transaction::write puts consume()'s third component into Operation.commit_predecessors as Some(..).")
    ctx.clauses = ["every new commit records predecessors", "existing commits are never re-recorded (acyclicity guard)",
                   "predecessor records are never cleared within a transaction",
                   "records reach the stored operation"]
    ctx.not_decided = ["walk_predecessors termination/order/exactly-once (graph algorithm)",
                       "legacy operations without commit_predecessors"]
    ctx.assumptions = ["the default index answers has_id correctly (C18)"]
    C11.rule_a(ctx, prefix="C46.a")
    rule_a2(ctx)
    rule_b(ctx)
    rule_c(ctx)
    rule_d(ctx)
    rule_e(ctx)
    rule_f(ctx)


def rule_a2(ctx):
    F = ctx.F
    sites = F.all_calls_to("jj_lib::store::Store::write_commit", crates=("jj_lib",))
    ctx.anchor("C46.a", "Store::write_commit call sites in jj-lib", sites, 1)
    for c in sites:
        ok = c.body.root == "jj_lib::commit_builder::write_to_store"
        ctx.ob("C46.a/who-writes-commits", c.body.root, ok, "commit_builder::write_to_store" if ok else
               "a commit is written to the store without going through the commit builder (no predecessors recorded)",
               where=c.where())
    sites = F.all_calls_to("jj_lib::commit_builder::write_to_store")
    for c in sites:
        ok = c.body.root in (DCB + "write", DCB + "write_hidden")
        ctx.ob("C46.a/who-calls-write_to_store", c.body.root, ok, "builder" if ok else "unexpected caller", where=c.where())
    # CLI must not call Store::write_commit either
    cli = F.all_calls_to("jj_lib::store::Store::write_commit", crates=("jj_cli",))
    ctx.ob("C46.a/cli-does-not-write-commits-directly", "jj_cli", not cli, f"{len(cli)} direct call(s)" )


def rule_b(ctx):
    F = ctx.F
    root = DCB + "write"
    for b in bodies_with(F, root, MR + "set_predecessors"):
        ctx.fn_seen(b.id)
        sl = F.slicer(b.id)
        tests = b.calls_to("jj_lib::index::Index::has_id")
        ctx.anchor("C46.b", "Index::has_id test in write", tests, 1)
        for sp in b.calls_to(MR + "set_predecessors"):
            ok = False
            for t in tests:
                # the id tested is the id recorded
                same = norm(sl.call_arg(t, 1)) == strip_clone(norm(sl.call_arg(sp, 1)))
                trues, falses = bool_edges(F, b, t)
                # has_id true & default index => Err; so set_predecessors must not be reachable from the true edge
                # unless the backend is not the default index (first conjunct false).
                reach_from_true = b.path_avoiding(trues, [sp.bb]) if trues else True
                bypass = set(falses)
                for d in b.calls_to(MR + "is_backed_by_default_index"):
                    bypass |= set(bool_edges(F, b, d)[1])
                if same and trues and reach_from_true is None and b.set_dominated(sp.bb, bypass):
                    ok = True
            ctx.ob("C46.b/acyclicity-guard", root, ok,
                   "set_predecessors is reached only via has_id(new id)==false (or a non-default index); the true edge returns Err" if ok
                   else "an already-indexed commit can be recorded as a new commit with predecessors (cycle)",
                   where=sp.where())


def strip_clone(t):
    return t


def rule_c(ctx):
    F = ctx.F
    ADT = "jj_lib::repo::MutableRepo"
    rows = F.q("SELECT DISTINCT fn FROM field_access WHERE adt=? AND field='commit_predecessors'", (ADT,))
    allowed = {MR + "set_predecessors": "insert", MR + "consume": "moved out with the view", MR + "new": "constructor"}
    n = 0
    for r in rows:
        b = F.body(r["fn"])
        muts = [(bb, kind, p, ln) for (bb, kind, p, ln) in body_accesses(b)
                if kind in ("mut", "write", "callret", "move") and place_has_field(p, ADT, "commit_predecessors")]
        if not muts:
            continue
        n += 1
        ok = b.root in allowed
        detail = allowed.get(b.root, "commit_predecessors is mutated outside set_predecessors/consume")
        if b.root == MR + "set_predecessors":
            sl = F.slicer(b.id)
            names = [c.res or c.decl for c in b.calls if not c.cleanup]
            ok = ok and any(name_matches(x, "re:BTreeMap.*::insert$") for x in names) and \
                not any(name_matches(x, "re:BTreeMap.*::(clear|remove|retain|pop_first|pop_last)$") for x in names)
        ctx.ob("C46.c/who-mutates-commit-predecessors", b.root, ok, detail, where=f"{b.file}:{muts[0][3]}")
    ctx.anchor("C46.c", "mutators of commit_predecessors", n, 2)


def rule_d(ctx):
    F = ctx.F
    root = "jj_lib::transaction::Transaction::write"
    found = False
    for b in F.family_bodies(root):
        sl = F.slicer(b.id)
        for i, blk in enumerate(b.blocks):
            for s in blk["s"]:
                rv = s["r"]
                if rv["k"] == "agg" and rv.get("adt") == "jj_lib::op_store::Operation":
                    found = True
                    ctx.fn_seen(b.id)
                    fields = dict(zip(rv["fields"], rv["o"]))
                    t = sl.operand(fields["commit_predecessors"], at=i)
                    st = strip(t)
                    ok = (isinstance(st, tuple) and st[0] == "agg" and st[2] == "Some" and
                          any(x[1] == MR + "consume" for x in term_calls(t)))
                    # third component of the tuple returned by consume
                    third = any(w[0] == "field" and w[2] == "(tuple)" and w[3] == "2" for w in walk(t))
                    ctx.ob("C46.d/records-reach-the-operation", root, ok and third,
                           f"commit_predecessors = {show(t)[:160]}" if ok and third else
                           f"the operation does not store the predecessors collected by the transaction: {show(t)[:200]}")
    ctx.anchor("C46.d", "op_store::Operation literal in Transaction::write", 1 if found else 0, 1)


def rule_e(ctx):
    F = ctx.F
    sites = F.all_calls_to(MR + "set_predecessors")
    allowed = {DCB + "write": "the commit builder", "jj_lib::git::import_refs_inner": "git import: abandoned->rewritten pairs",
               "jj_lib::git::import_some_refs": "git import", "jj_lib::git::import_refs": "git import"}
    for c in sites:
        ok = c.body.root in allowed or c.body.root.startswith("jj_lib::git::")
        ctx.ob("C46.e/who-records-predecessors", c.body.root, ok, allowed.get(c.body.root, "git import") if ok else
               "new recorder of predecessors (must keep the relation acyclic)", where=c.where())
    ctx.anchor("C46.e", "callers of set_predecessors", sites, 2)
    # git import records predecessors only for commits it just imported (cannot close a cycle)
    for c in sites:
        if not c.body.root.startswith("jj_lib::git::"):
            continue
        sl = F.slicer(c.body.id)
        t = sl.call_arg(c, 1)
        ok = False
        for x in term_calls(t):
            if name_matches(x[1], "re:Iterator::filter$|::filter$") and len(x[2]) > 1:
                for y in term_calls(x[2][1]):
                    if y[1].startswith("closure:"):
                        cb = F.body(y[1][len("closure:"):])
                        if cb and cb.calls_to("re:HashSet.*::contains$"):
                            ok = True
        ctx.ob("C46.e/git-import-only-new-commits", c.body.root, ok,
               "predecessors recorded only for ids passing filter(imported_commit_ids.contains)" if ok else
               f"git import records predecessors for commits that may already have a history: {show(t)[:160]}",
               where=c.where())


def rule_f(ctx):
    F = ctx.F
    EV = "jj_lib::evolution::"
    wb = F.body(EV + "walk_predecessors")
    if not ctx.anchor("C46.f", "walk_predecessors", [wb] if wb is not None else [], 1):
        return
    ctx.fn_seen(wb.id)
    sl = F.slicer(wb.id)
    agg = None
    for i, blk in enumerate(wb.blocks):
        if blk.get("c"):
            continue
        for st in blk["s"]:
            rv = st["r"]
            if rv["k"] == "agg" and str(rv.get("adt", "")).startswith(EV + "WalkPredecessors"):
                agg = (i, rv)
    if not ctx.anchor("C46.f", "WalkPredecessors state literal", [agg] if agg else [], 1):
        return
    i, rv = agg
    fields = dict(zip(rv["fields"], rv["o"]))
    t_ops = sl.operand(fields["op_ancestors"], at=i)
    names = {x[1] for x in term_calls(t_ops)}
    ok = "jj_lib::op_walk::walk_ancestors" in names and any(n.endswith("ReadonlyRepo::operation") for n in names) and \
        not any(n.endswith("Operation::parents") for n in names)
    ctx.ob("C46.f/walks-the-whole-operation-dag", wb.id, ok, "op_ancestors = op_walk::walk_ancestors([repo.operation()])" if ok else
           f"the operations consulted are not all ancestors of the repo's operation: {show(t_ops)[:120]} - rewrites recorded by "
           f"concurrent (merged) operations are missed")
    t_vis = sl.operand(fields["to_visit"], at=i)
    pn = {l[2] for l in __import__("jjv.lib", fromlist=["term_leaves"]).term_leaves(t_vis) if l[0] == "param"}
    narrowing = {x[1].split("::")[-1] for x in term_calls(t_vis)
                 if name_matches(x[1], "re:Iterator::(filter|take|skip|step_by|filter_map)$|slice.*::(first|last|split_first)$")}
    ctx.ob("C46.f/starts-from-the-given-commits", wb.id, pn == {"start_commits"} and not narrowing,
           "to_visit = start_commits.to_vec()" if pn == {"start_commits"} and not narrowing else
           f"to_visit is built from {sorted(pn)} with {sorted(narrowing)}")
    # try_next_impl: flush on exhaustion and on legacy operations; visit_op otherwise; pops only from queued
    W = "re:^jj_lib::evolution::WalkPredecessors::<I>::"
    tb = [b for b in F.family_bodies(EV + "WalkPredecessors::<I>::try_next_impl") if b.calls_to(W + "visit_op$")]
    if ctx.anchor("C46.f", "try_next_impl body", tb, 1):
        b = tb[0]
        ctx.fn_seen(b.id)
        fl = [c for c in b.calls_to(W + "flush_commits$") if c.decl != "futures::Future::poll"]
        vo = [c for c in b.calls_to(W + "visit_op$") if c.decl != "futures::Future::poll"]
        ctx.ob("C46.f/remaining-commits-flushed", b.id, len(fl) >= 2 and all(find_ok_nodes(F, b, c) for c in fl),
               f"{len(fl)} ?-checked flush_commits sites (operations exhausted / legacy operation)" if len(fl) >= 2 else
               "commits still to visit are not emitted when the operation history ends: the walk silently loses them")
        ctx.ob("C46.f/visit-result-checked", b.id, bool(vo) and all(find_ok_nodes(F, b, c) for c in vo), "visit_op(..)?")
    vb = [b for b in F.family_bodies(EV + "WalkPredecessors::<I>::visit_op") if b.calls_to("re:Operation::predecessors_for_commit$")]
    if ctx.anchor("C46.f", "visit_op body", vb, 1):
        b = vb[0]
        ctx.fn_seen(b.id)
        topo = b.calls_to("re:dag_walk::topo_order_reverse_ok$")
        names = {c.res or c.decl or "" for c in b.calls if not c.cleanup}
        cyc = any(r["variant"] == "CycleDetected" for r in F.q(
            "SELECT variant FROM aggregate WHERE root=? AND adt=?", (b.root, EV + "WalkPredecessorsError")))
        ctx.ob("C46.f/cycle-is-an-error", b.id, bool(topo) and cyc and all(find_ok_nodes(F, b, c) for c in topo),
               "topo_order_reverse_ok(..).map_err(CycleDetected)?" if topo and cyc else
               "multiple predecessors in one operation are no longer ordered by a cycle-detecting topological sort")
    fb = [b for b in F.family_bodies(EV + "WalkPredecessors::<I>::flush_commits") if b.calls_to("re:VecDeque.*::push_back$")]
    if ctx.anchor("C46.f", "flush_commits body", fb, 1):
        b = fb[0]
        ctx.fn_seen(b.id)
        names = {(c.res or c.decl or "").split("::")[-1] for c in b.calls if not c.cleanup}
        ok = "drain" in names and not ({"filter", "take", "skip", "truncate", "pop"} & names)
        ctx.ob("C46.f/flush-emits-every-remaining-commit", b.id, ok, "for id in to_visit.drain(..) push_back" if ok else
               f"flush_commits does not emit every commit left in to_visit ({sorted(names)[:8]})")
