"""C17  Commit backends return on read exactly what write reported (coverage + write-back agreement).

a. simple backend: writer/reader agreement on every field of backend::Commit, Signature, Timestamp (proto relation)
   git backend: every field of backend::Commit is read in the write_commit cone and restored in the reader cone
b. lossy encoders: a field that write_commit passes through an encoder that divides it (millis -> seconds) must be
   written back into the returned Commit from the encoded value before the Ok return
c. Store::write_commit caches exactly the (id, commit) pair the backend returned
e. git backend, list-valued commit headers: the reader splits `jj:conflict-labels` with exactly the separator the writer
   joins and terminates with (and asserts is absent from every label) -- no splitting function that treats other
   characters specially (str::lines strips '\r')
d. git backend, extras table (change id, predecessors live there, keyed by commit id): the id is
   handed out only if the table has no entry for it or an equal one (otherwise the committer time is adjusted and the
   object rewritten); the entry (id -> serialize_extras(contents)) is added and the table saved (?-checked) before every
   Ok return; the table consulted is the one read under the lock that is passed to the save
"""
from jjv.lib import (READ_KINDS, bool_edges, bodies_with, body_accesses, find_ok_nodes, impls_of, name_matches, norm, ok_exit_nodes,
                     referent_place, show, strip, term_calls, term_fields, walk)
from rules.serde_common import (DERIVED_TRAITS, check_pairwise, check_roundtrip, cone_bodies, relation, struct_fields)

B = "jj_lib::backend::"
DOMAIN = [B + "Commit", B + "Signature", B + "Timestamp"]
WRITE = B + "Backend::write_commit"
READ = B + "Backend::read_commit"


def run(ctx):
    F = ctx.F
    ctx.explanation = (
        "Field coverage and sibling agreement over MIR: for SimpleBackend the struct literals / field writes / pushes in "
        "the write_commit cone relate every field of Commit, Signature and Timestamp to a proto field and the "
        "read_commit cone relates it back; for GitBackend every Commit field is read in the write cone and restored "
        "in the read cone (object fields or the extras table); any field of the commit that write_commit hands to an "
        "encoder dividing it by a constant (timestamps: ms -> s) is re-assigned in the returned Commit from the encoded "
        "value on every Ok path; Store::write_commit caches the pair returned by the backend.")
    ctx.clauses = ["every commit field is stored and restored (both backends)",
                   "lossily encoded fields are normalised in the value write_commit returns",
                   "the store caches what the backend reported"]
    ctx.not_decided = ["byte identity of files/symlinks/trees (gix encoding)", "id collision freedom beyond C16.c",
                       "names equal to the empty-string placeholder"]
    rule_simple(ctx)
    rule_git(ctx)
    rule_b(ctx)
    rule_c(ctx)
    rule_d(ctx)
    rule_e(ctx)


def _impl(F, trait_item, self_pat):
    return [i for i in impls_of(F, trait_item, crates=("jj_lib",)) if self_pat in i]


def rule_simple(ctx):
    F = ctx.F
    w = _impl(F, WRITE, "simple_backend::SimpleBackend")
    r = _impl(F, READ, "simple_backend::SimpleBackend")
    ctx.anchor("C17.a", "SimpleBackend write_commit/read_commit", w + r, 2)
    PROTO = "jj_lib::protos::simple_store::"
    is_dom = lambda a: a in DOMAIN
    is_proto = lambda a: bool(a) and a.startswith(PROTO)
    wc, wb = cone_bodies(F, w)
    rc, rb = cone_bodies(F, r)
    ctx.fn_seen(*[b.id for b in wb + rb])
    W, ws, _, n1 = relation(F, wb, is_dom, is_proto)
    R, rs, _, n2 = relation(F, rb, is_proto, is_dom)
    ctx.sites += n1 + n2
    ctx.anchor("C17.a", "simple backend writer relation", W, 10)
    ctx.anchor("C17.a", "simple backend reader relation", R, 10)
    check_roundtrip(ctx, "C17.a/simple", DOMAIN, W, R, ws, rs, exempt={
        (B + "Commit", "secure_sig"): "write_commit asserts secure_sig is None; the signature is produced by the "
                                       "backend itself (sign_with) and restored from proto.secure_sig"})
    check_pairwise(ctx, "C17.a/simple", W, R, legacy_read_only={
        ("Commit.secure_sig", "Commit.secure_sig"): "the stored signature is produced by sign_with at write time "
                                                    "(write_commit asserts the input has none)"})
    # secure_sig: reader restores it from proto.secure_sig, writer sets proto.secure_sig when signing
    okw = any(p == (PROTO + "Commit", "secure_sig") for (p, d) in W) or _field_written(wb, PROTO + "Commit", "secure_sig")
    okr = any(d == (B + "Commit", "secure_sig") and p[0] in (PROTO + "Commit",) for (d, p) in R)
    ctx.ob("C17.a/simple/secure-sig", "Commit.secure_sig", okw and okr,
           "proto.secure_sig written when signing and read back" if okw and okr else "signature not stored/restored")


def _field_written(bodies, adt, field):
    for b in bodies:
        for (bb, k, p, ln) in body_accesses(b):
            if k in ("write", "callret") and any(isinstance(e, list) and e[0] == "f" and len(e) >= 5 and e[3] == adt
                                                 and e[2] == field for e in p[1:]):
                return True
    return False


def rule_git(ctx):
    F = ctx.F
    w = _impl(F, WRITE, "git_backend::GitBackend")
    r = _impl(F, READ, "git_backend::GitBackend")
    if not ctx.anchor("C17.a", "GitBackend write_commit/read_commit", w + r, 2):
        return
    wc, wb = cone_bodies(F, w)
    rc, rb = cone_bodies(F, r)
    ctx.fn_seen(*[b.id for b in wb + rb])
    read = set()
    for b in wb:
        if not b.id.startswith(("jj_lib::git_backend::", "<jj_lib::git_backend::")):
            continue
        for (bb, k, p, ln) in body_accesses(b):
            if k in ("read", "move", "shared", "discr", "fake"):
                for e in p[1:]:
                    if isinstance(e, list) and e[0] == "f" and len(e) >= 5 and e[3] in DOMAIN:
                        read.add((e[3], e[2]))
    restored = set()
    for b in rb:
        if not b.id.startswith(("jj_lib::git_backend::", "<jj_lib::git_backend::")):
            continue
        sl = None
        from rules.serde_common import aggregates, is_default_value
        for i, s, rv in aggregates(b):
            if rv.get("adt") in DOMAIN:
                sl = sl or F.slicer(b.id)
                for fname, o in zip(rv["fields"], rv["o"]):
                    t = sl.operand(o, at=i)
                    if not is_default_value(t) and not (strip(t)[0] == "call" and strip(t)[1] == "[array]" and not strip(t)[2]) \
                            and "box_assume_init_into_vec_unsafe" not in show(t)[:60]:
                        restored.add((rv["adt"], fname))
        for (bb, k, p, ln) in body_accesses(b):
            if k in ("write", "mut", "callret"):
                fs = [e for e in p[1:] if isinstance(e, list) and e[0] == "f" and len(e) >= 5]
                if fs and fs[0][3] in DOMAIN:
                    restored.add((fs[0][3], fs[0][2]))
    for adt in DOMAIN:
        for f in struct_fields(F, adt):
            ctx.ob("C17.a/git/field-written", f"{adt.split('::')[-1]}.{f}", (adt, f) in read or f == "secure_sig",
                   "read while encoding the Git commit / extras" if (adt, f) in read else
                   ("produced by the backend (sign_with)" if f == "secure_sig" else
                    "GitBackend::write_commit never reads this field: it is not stored"))
            ctx.ob("C17.a/git/field-restored", f"{adt.split('::')[-1]}.{f}", (adt, f) in restored,
                   "restored from the Git object or the extras table" if (adt, f) in restored else
                   "the Git reader never restores this field (left empty/default)")
    # the value of every stored field must flow into the Git commit object (or the extras proto below)
    GIX = "gix::gix_object::Commit"
    Wg, wsg, _, ng = relation(F, wb, lambda a: a in DOMAIN, lambda a: a == GIX)
    ctx.sites += ng
    ctx.anchor("C17.a", "fields of the gix commit object fed from the jj commit", Wg, 5)
    flows = {d for (p, d) in Wg}
    expect = {"parents": "parents", "root_tree": "tree / jj:trees header", "conflict_labels": "jj:conflict-labels header",
              "change_id": "change-id header", "description": "message", "author": "author", "committer": "committer"}
    for f, where_ in expect.items():
        ok = (B + "Commit", f) in flows
        ctx.ob("C17.a/git/field-flows-into-object", f"Commit.{f}", ok,
               f"value reaches the gix commit object ({where_}): "
               f"{sorted(p[1] for (p, d) in Wg if d == (B + 'Commit', f))}" if ok else
               f"Commit.{f} is inspected but its value never reaches the Git commit object ({where_} not written)")
    # extras table: writer/reader agreement on protos::git_store::Commit
    PROTO = "jj_lib::protos::git_store::"
    is_dom = lambda a: a in DOMAIN
    is_proto = lambda a: bool(a) and a.startswith(PROTO)
    W, ws, _, n1 = relation(F, wb, is_dom, is_proto)
    R, rs, _, n2 = relation(F, rb, is_proto, is_dom)
    ctx.sites += n1 + n2
    ctx.anchor("C17.a", "git extras writer relation", W, 2)
    check_pairwise(ctx, "C17.a/git-extras", W, R, legacy_read_only={
        ("Commit.root_tree", "Commit.root_tree"): "conflicted trees were stored in the extras table before the "
                                                  "jj:trees header (~March 2024)"})


def lossy_paths(F, fid):
    """field paths (from parameter 1) that `fid` divides by a constant: [(adt, field), ...] lists"""
    out = []
    for b in F.family_bodies(fid):
        sl = F.slicer(b.id)
        cands = []
        for c in b.calls:
            if not c.cleanup and name_matches(c.res or c.decl or "", ("re:::div_euclid$", "re:::div_floor$", "re:::rem_euclid$")) and c.args:
                cands.append(sl.call_arg(c, 0))
        for i, blk in enumerate(b.blocks):
            for s in blk["s"]:
                rv = s["r"]
                if rv["k"] == "bin" and rv["op"] in ("Div", "Shr"):
                    cands.append(sl.operand(rv["a"], at=i))
        for t in cands:
            path = []
            x = strip(t)
            while isinstance(x, tuple) and x[0] == "field":
                path.append((x[2], x[3]))
                x = strip(x[1])
            if isinstance(x, tuple) and x[0] == "param" and x[1] == 1 and path:
                out.append(list(reversed(path)))
    return out


def rule_b(ctx):
    F = ctx.F
    n_lossy = 0
    for imp in impls_of(F, WRITE, crates=("jj_lib",)):
        bs = [b for b in F.family_bodies(imp) if any(not c.cleanup for c in b.calls)]
        for b in bs:
            okn, errn, other = ok_exit_nodes(F, b)
            if not okn:
                continue
            sl = F.slicer(b.id)
            for c in b.calls:
                if c.cleanup or not c.args or not (c.res or "").startswith("jj_lib::"):
                    continue
                tgt = c.res
                if tgt not in F.fns:
                    continue
                lp = lossy_paths(F, tgt)
                if not lp:
                    continue
                rp = referent_place(b, c.args[0])
                if rp is None:
                    continue
                base_fields = [e[2] for e in rp[1:] if isinstance(e, list) and e[0] == "f"]
                if not any(isinstance(e, list) and e[0] == "f" and len(e) >= 5 and e[3] in DOMAIN for e in rp[1:]):
                    continue
                ctx.fn_seen(b.id, tgt)
                for path in lp:
                    n_lossy += 1
                    full = base_fields + [f for (_, f) in path if f not in ("0",)]
                    # writes to contents.<prefix of full> rooted at the same local, with a value derived from the encoder result
                    wr = set()
                    for i, blk in enumerate(b.blocks):
                        if blk.get("c"):
                            continue
                        for s in blk["s"]:
                            l = s["l"]
                            if l[0] != rp[0] or len(l) == 1:
                                continue
                            lf = [e[2] for e in l[1:] if isinstance(e, list) and e[0] == "f"]
                            if lf and lf == full[:len(lf)] and len(lf) >= len(base_fields) + 1:
                                t = sl._rvalue(s["r"], i)
                                if any(x[3] and x[3][0] == b.id and x[3][1] == c.bb for x in term_calls(t)):
                                    wr.add(i)
                    bad = None
                    for x in okn:
                        if not b.set_dominated(x, wr):
                            bad = x
                    key = f"{imp.split(' as ')[0][1:].split('::')[-1]}::write_commit|{'.'.join(full)}"
                    ctx.ob("C17.b/lossy-write-back", key, bool(wr) and bad is None,
                           f"{short_name(tgt)} divides {'.'.join(full)}; the returned commit gets the encoded value back "
                           f"on every Ok path" if wr and bad is None else
                           f"{short_name(tgt)} stores {'.'.join(full)} with reduced precision but the Commit returned by "
                           f"write_commit keeps the original value: read_commit will differ from what write reported",
                           where=c.where())
    ctx.anchor("C17.b", "lossy encoder applications in write_commit impls", n_lossy, 2)


def short_name(n):
    return n.split("::")[-1]


def rule_c(ctx):
    F = ctx.F
    root = "jj_lib::store::Store::write_commit"
    bs = bodies_with(F, root, WRITE)
    ctx.anchor("C17.c", "Store::write_commit", bs, 1)
    for b in bs:
        ctx.fn_seen(b.id)
        sl = F.slicer(b.id)
        w = [c for c in b.calls_to(WRITE) if c.decl != "futures::Future::poll"][0]
        puts = [c for c in b.calls if not c.cleanup and name_matches(c.res or c.decl or "", "re:::put$")]
        ok = False
        for p in puts:
            k, v = sl.call_arg(p, 1), sl.call_arg(p, 2)
            from_w = lambda t: any(x[3] and x[3][0] == b.id and x[3][1] == w.bb for x in term_calls(t))
            idx = lambda t: {y[3] for y in walk(t) if y[0] == "field" and y[2] == "(tuple)"}
            if from_w(k) and from_w(v) and "0" in idx(k) and "1" in idx(v):
                ok = True
        ctx.ob("C17.c/cache-is-backend-result", root, ok,
               "commit_cache.put(id, commit) with both components of the backend's return value" if ok else
               "the store caches something other than what Backend::write_commit returned")
        # the Commit handed back wraps the same data
        news = b.calls_to("jj_lib::commit::Commit::new")
        okn = any(any(x[3] and x[3][1] == w.bb for x in term_calls(sl.call_arg(n, 2))) for n in news)
        ctx.ob("C17.c/returned-commit-is-backend-result", root, okn, "Commit::new(.., id, data) from the same result")


def rule_d(ctx):
    F = ctx.F
    imp = "<jj_lib::git_backend::GitBackend as jj_lib::backend::Backend>::write_commit"
    GB = "jj_lib::git_backend::"
    bs = bodies_with(F, imp, GB + "serialize_extras")
    if not ctx.anchor("C17.d", "GitBackend::write_commit body", bs, 1):
        return
    b = bs[0]
    ctx.fn_seen(b.id)
    sl = F.slicer(b.id)
    ser = b.calls_to(GB + "serialize_extras")
    getv = b.calls_to("re:stacked_table::TableSegment::get_value$")
    locked = b.calls_to(GB + "GitBackend::read_extra_metadata_table_locked")
    wobj = [c for c in b.calls_to("re:gix::Repository>::write_object$")]
    mk = b.calls_to("jj_lib::backend::CommitId::from_bytes")
    adds = b.calls_to("re:stacked_table::MutableTable::add_entry$")
    save = b.calls_to(GB + "GitBackend::save_extra_metadata_table")
    if not ctx.anchor("C17.d", "serialize_extras/get_value/locked read/CommitId::from_bytes/add_entry/save in write_commit",
                      min(len(ser), len(getv), len(locked), len(mk), len(adds), len(save), len(wobj)), 1):
        return
    # d1: collision test: ne/eq between get_value(..git id..) and serialize_extras(..)
    cmp_true_differs = set()
    for c in b.calls:
        if c.cleanup or c.decl not in ("std::cmp::PartialEq::ne", "std::cmp::PartialEq::eq"):
            continue
        ids = set()
        for i in (0, 1):
            for x in term_calls(sl.call_arg(c, i)):
                ids.add(x[1])
        if any(name_matches(n, "re:TableSegment::get_value$") for n in ids) and GB + "serialize_extras" in ids:
            tr, fa = bool_edges(F, b, c)
            cmp_true_differs |= set(tr if c.decl.endswith("::ne") else fa)
    ok1 = bool(cmp_true_differs)
    # from the "differs" edge the id must not be produced without writing the object again
    p = None
    if ok1:
        p = b.path_avoiding(list(cmp_true_differs), [m.bb for m in mk], {w.bb for w in wobj})
    ctx.ob("C17.d/id-not-shared-with-different-extras", imp, ok1 and p is None,
           "an id whose extras-table entry differs is never handed out: the loop rewrites the object first" if ok1 and p is None
           else ("no comparison of the existing extras entry with the new extras" if not ok1 else
                 f"the id is returned although the table holds different extras for it: {b.show_path(p)[-3:]}") +
           " - two commits differing only in table-stored fields would share an id and one entry is lost", where=getv[0].where())
    # the key looked up is the id of the object just written
    kt = sl.call_arg(getv[0], 1)
    okk = any(name_matches(x[1], "re:::write_object$") for x in term_calls(kt))
    ctx.ob("C17.d/lookup-keyed-by-written-id", imp, okk, "get_value(git_id.as_bytes()) of the object just written" if okk else
           f"collision lookup is not keyed by the written object's id: {show(kt)[:100]}")
    # id derives from the same write_object
    it = sl.call_arg(mk[0], 0)
    oki = any(name_matches(x[1], "re:::write_object$") for x in term_calls(it))
    ctx.ob("C17.d/id-is-written-object-id", imp, oki, "CommitId::from_bytes(git_id.as_bytes())" if oki else
           f"returned id does not derive from write_object: {show(it)[:100]}")
    # d2: entry added and saved before every Ok
    oks, _, _ = ok_exit_nodes(F, b)
    a = adds[0]
    k, v = sl.call_arg(a, 1), sl.call_arg(a, 2)
    okkv = any(x[1] == "jj_lib::backend::CommitId::from_bytes" for x in term_calls(k)) and \
        any(x[1] == GB + "serialize_extras" for x in term_calls(v))
    ctx.ob("C17.d/entry-is-id-to-extras", imp, okkv, "add_entry(id.to_bytes(), serialize_extras(contents))" if okkv else
           f"table entry is not (returned id -> serialized extras): {show(k)[:60]} -> {show(v)[:60]}", where=a.where())
    doms = set()
    for c in save:
        doms |= find_ok_nodes(F, b, c)
    # saving may be skipped only where the table is known to hold an equal entry for this id already
    equal_edges = set()
    for c in b.calls:
        if c.cleanup or c.decl not in ("std::cmp::PartialEq::ne", "std::cmp::PartialEq::eq"):
            continue
        ids = {x[1] for i in (0, 1) for x in term_calls(sl.call_arg(c, i))}
        if any(name_matches(n, "re:TableSegment::get_value$") for n in ids) and GB + "serialize_extras" in ids and \
                "jj_lib::backend::CommitId::from_bytes" in ids:
            tr, fa = bool_edges(F, b, c)
            equal_edges |= set(fa if c.decl.endswith("::ne") else tr)
    pth = b.path_avoiding([0], list(oks), doms | equal_edges) if oks else [0]
    pth2 = b.path_avoiding([0], list(oks), {a.bb} | equal_edges) if oks else [0]
    ctx.ob("C17.d/extras-saved-before-ok", imp, bool(doms) and pth is None and pth2 is None,
           "every Ok return passes add_entry and a ?-checked save_extra_metadata_table" if doms and pth is None and pth2 is None
           else "write_commit can return Ok without the extras entry being saved: read_commit will not find change id/"
           "predecessors")
    # d3: same locked table
    tt = sl.call_arg(getv[0], 0)
    lt = sl.call_arg(save[0], 2)
    okl = any(x[1] == GB + "GitBackend::read_extra_metadata_table_locked" for x in term_calls(tt)) and \
        any(x[1] == GB + "GitBackend::read_extra_metadata_table_locked" for x in term_calls(lt))
    ctx.ob("C17.d/collision-check-under-table-lock", imp, okl,
           "table consulted and lock passed to save both come from read_extra_metadata_table_locked()" if okl else
           "the collision check reads the table outside the lock that protects the save (lost-entry race)")
    # serialize_extras covers the table-stored fields: its body reads change_id, predecessors, root_tree (conflicts)
    eb = F.body(GB + "serialize_extras")
    if ctx.anchor("C17.d", "serialize_extras body", [eb] if eb is not None else [], 1):
        ctx.fn_seen(eb.id)
        from jjv.lib import fields_touched
        reads = {f for (_, f) in fields_touched(F, GB + "serialize_extras", (B + "Commit",), READ_KINDS, depth=1)}
        need = {"change_id", "predecessors"}
        ctx.ob("C17.d/extras-cover-table-fields", GB + "serialize_extras", need <= reads,
               f"reads {sorted(reads)}" if need <= reads else f"serialize_extras no longer reads {sorted(need - reads)}")


def rule_e(ctx):
    F = ctx.F
    GB = "jj_lib::git_backend::"
    rb = F.body(GB + "extract_conflict_labels_from_commit")
    wimp = "<jj_lib::git_backend::GitBackend as jj_lib::backend::Backend>::write_commit"
    wbs = [b for b in F.family_bodies(wimp) if any(name_matches(c.res or c.decl or "", "re:Itertools::join$") for c in b.calls if not c.cleanup)]
    if not ctx.anchor("C17.e", "conflict-labels header reader / writer", min(1 if rb is not None else 0, len(wbs)), 1):
        return
    ctx.fn_seen(rb.id, wbs[0].id)
    wb = wbs[0]
    wsl = F.slicer(wb.id)
    # writer separator: join(const) over contents.conflict_labels
    wsep = None
    for c in wb.calls:
        if c.cleanup or not name_matches(c.res or c.decl or "", "re:Itertools::join$"):
            continue
        src = wsl.call_arg(c, 0)
        if any(w[0] == "field" and w[3] == "conflict_labels" for w in walk(src)):
            k = strip(wsl.call_arg(c, 1))
            if isinstance(k, tuple) and k[0] == "const":
                wsep = k[1]
    # forbidden character asserted absent: a str::contains(const) in the writer family on labels
    forb = set()
    for b in F.family_bodies(wimp):
        bsl = None
        for c in b.calls:
            if not c.cleanup and name_matches(c.res or c.decl or "", "re:str>::contains$"):
                bsl = bsl or F.slicer(b.id)
                k = strip(bsl.call_arg(c, 1))
                if isinstance(k, tuple) and k[0] == "const":
                    forb.add(k[1] if isinstance(k[1], str) else chr(k[1]))
    rsl = F.slicer(rb.id)
    splitters = [(c, (c.res or c.decl or "").split("::")[-1]) for c in rb.calls if not c.cleanup and
                 name_matches(c.res or c.decl or "", "re:str>::(split|split_terminator|rsplit|splitn|lines|split_whitespace|"
                              "split_ascii_whitespace|split_inclusive|rsplit_terminator)$")]
    if not ctx.anchor("C17.e", "split call in extract_conflict_labels_from_commit", splitters, 1):
        return
    c, fn = splitters[0]
    rsep = None
    if len(c.args) > 1:
        k = strip(rsl.call_arg(c, 1))
        if isinstance(k, tuple) and k[0] == "const":
            rsep = k[1] if isinstance(k[1], str) else chr(k[1])
    ws = wsep if isinstance(wsep, str) else (chr(wsep) if isinstance(wsep, int) else None)
    ok = fn in ("split_terminator", "split") and rsep is not None and rsep == ws and (ws in forb)
    ctx.ob("C17.e/label-separator-agreement", GB + "extract_conflict_labels_from_commit", ok,
           f"writer joins with {ws!r} (asserted absent from labels), reader {fn}({rsep!r})" if ok else
           f"the reader splits the jj:conflict-labels header with {fn}({rsep!r}) while the writer joins with {ws!r} and only "
           f"forbids {sorted(forb)} inside labels: a label containing a character the reader treats specially (e.g. a trailing "
           f"'\\r' with lines()) does not read back as written", where=c.where())
