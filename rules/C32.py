"""C32  Workspace path conversion is lossless and confined (validated constructors, checked fs mapping).

a. the `value` fields of RepoPath/RepoPathBuf/RepoPathComponent/RepoPathComponentBuf are module-private and the
   unchecked wrappers are private
b. every construction site in repo_path.rs is classified validated / derived / normal-components / empty
c. to_fs_path pushes only to_fs_name()? results; to_fs_name returns Ok only for a single Normal component
d. to_fs_path_unchecked call sites are a frozen table
"""
from jjv.lib import (alts, bodies_with, bool_edges, find_ok_nodes, name_matches, norm, ok_exit_nodes, show, strip,
                     term_calls, term_fields, term_leaves, walk)

RP = "jj_lib::repo_path::"
PATH_ADTS = (RP + "RepoPath", RP + "RepoPathBuf", RP + "RepoPathComponent", RP + "RepoPathComponentBuf",
             RP + "RepoPathComponentsIter")
UNCHECKED = (RP + "RepoPath::from_internal_string_unchecked", RP + "RepoPathComponent::new_unchecked")
VALIDATORS = (RP + "is_valid_repo_path_str", RP + "is_valid_repo_path_component_str")

CLASS = {
    RP + "RepoPathComponent::new": "validated",
    RP + "RepoPathComponentBuf::new": "validated",
    RP + "RepoPath::from_internal_string": "validated",
    RP + "RepoPathBuf::from_internal_string": "validated",
    RP + "RepoPathBuf::root": "empty",
    RP + "RepoPath::root": "empty",
    RP + "RepoPathBuf::from_relative_path": "normal-components",
    "<jj_lib::repo_path::RepoPathBuf as std::ops::Deref>::deref": "derived",
    "<jj_lib::repo_path::RepoPathComponentBuf as std::ops::Deref>::deref": "derived",
    "<jj_lib::repo_path::RepoPath as std::borrow::ToOwned>::to_owned": "derived",
    "<jj_lib::repo_path::RepoPathComponent as std::borrow::ToOwned>::to_owned": "derived",
    "<jj_lib::repo_path::RepoPathBuf as std::clone::Clone>::clone": "derived",
    "<jj_lib::repo_path::RepoPathComponentBuf as std::clone::Clone>::clone": "derived",
    "<jj_lib::repo_path::RepoPathComponentsIter<'a> as std::clone::Clone>::clone": "derived",
    RP + "RepoPath::join": "derived",
    RP + "RepoPath::strip_prefix": "derived",
    RP + "RepoPath::split_common_prefix": "derived",
    RP + "RepoPath::components": "derived",
    RP + "RepoPathComponentsIter::<'a>::as_path": "derived",
    "<jj_lib::repo_path::RepoPathComponentsIter<'a> as std::iter::Iterator>::next": "derived",
    "<jj_lib::repo_path::RepoPathComponentsIter<'_> as std::iter::DoubleEndedIterator>::next_back": "derived",
}

UNCHECKED_FS_SITES = {
    "jj_lib::local_working_copy::create_parent_dirs": (1, "error message only"),
    RP + "RepoPathUiConverter::format_file_path": (1, "UI formatting"),
    "jj_cli::commands::sparse::edit::edit_sparse": (1, "display in the editor buffer; edited paths are re-validated"),
    "jj_cli::commands::sparse::list::cmd_sparse_list": (1, "display"),
    "jj_cli::merge_tools::builtin::make_diff_files": (1, "display path for the diff editor"),
    "jj_cli::merge_tools::builtin::make_merge_file": (1, "display path for the diff editor"),
    "jj_cli::progress::snapshot_progress": (1, "progress display"),
    "jj_cli::commands::run::WorkspacePool::acquire": (1, "paths returned by a snapshot of `jj run`'s own temporary "
                                                         "working copy (real directory entries below it)"),
    "jj_cli::commands::run::rewrite_commit": (1, "untracked paths reported by a snapshot of `jj run`'s own temporary "
                                                 "working copy"),
}


def run(ctx):
    ctx.explanation = (
        "Typestate-by-privacy plus a classification of every construction site: the string inside a repo path type can "
        "only be set in repo_path.rs; each struct literal / unchecked wrapper call there is (1) on the true edge of the "
        "validator applied to that very value, (2) derived only from the `value` of existing repo paths (and the '/' "
        "separator), (3) built from Component::Normal parts only, or (4) the empty root. to_fs_path pushes only "
        "to_fs_name()? results and to_fs_name returns Ok only for a single Normal component; to_fs_path_unchecked has "
        "a frozen set of display/temporary-workspace callers.")
    ctx.clauses = ["only validated constructors can build repo paths", "fs mapping is checked component-wise",
                   "unchecked mapping is display-only"]
    ctx.not_decided = ["parse_fs_path∘to_fs_path is the identity (string-level)", "Windows separators / cfg(windows)"]
    rule_a(ctx)
    rule_b(ctx)
    rule_c(ctx)
    rule_d(ctx)


def rule_a(ctx):
    F = ctx.F
    for adt in PATH_ADTS[:4]:
        rows = F.q("SELECT name, vis FROM adt_field WHERE adt=?", (adt,))
        ok = bool(rows) and all(r["vis"].startswith("in:jj_lib::repo_path") for r in rows)
        ctx.ob("C32.a/value-private", adt, ok, f"{[(r['name'], r['vis']) for r in rows]}")
    for u in UNCHECKED:
        fn = F.q("SELECT vis FROM fn WHERE id=?", (u,)) or F.q("SELECT vis FROM decl WHERE id=?", (u,))
        ok = bool(fn) and fn[0]["vis"].startswith("in:jj_lib::repo_path")
        ctx.ob("C32.a/unchecked-ctor-private", u, ok, f"visibility {fn[0]['vis'] if fn else 'missing'}")


def _sites(ctx):
    F = ctx.F
    sites = []  # (family root, body, bb, value term, kind)
    for r in F.q("SELECT fn, bb, adt FROM aggregate WHERE adt IN (?,?,?,?,?)", PATH_ADTS):
        b = F.body(r["fn"])
        sl = F.slicer(b.id, with_mutators=True)
        for s in b.blocks[r["bb"]]["s"]:
            rv = s["r"]
            if rv["k"] == "agg" and rv.get("adt") == r["adt"]:
                vals = dict(zip(rv["fields"], rv["o"]))
                o = vals.get("value") or rv["o"][0]
                sites.append((b.root, b, r["bb"], sl.operand(o, at=r["bb"]), "literal"))
    for c in F.all_calls_to(UNCHECKED):
        sl = F.slicer(c.body.id, with_mutators=True)
        sites.append((c.body.root, c.body, c.bb, sl.call_arg(c, 0), "unchecked"))
    return sites


def _derived_only(t, body=None):
    """every leaf is the value of an existing repo path (a parameter of a repo-path type read through `.value` or an
    as_internal_* accessor), a constant (separator, index), or a captureless closure"""
    for l in term_leaves(t):
        if l[0] in ("const", "upvar", "cycle", "resume"):
            continue
        if l[0] == "param":
            if body is not None and l[1] < len(body.locals) and "jj_lib::repo_path::" not in body.locals[l[1]] \
                    and "usize" not in body.locals[l[1]]:
                return False, l
            continue
        if l[0] in ("call", "agg", "tuple") and not (l[2] if l[0] == "call" else (l[3] if l[0] == "agg" else l[1])):
            continue
        return False, l
    fields = term_fields(t)
    calls = {x[1] for x in term_calls(t)}
    reads_path = any(a in PATH_ADTS and f == "value" for (a, f) in fields) or \
        any(name_matches(c, "re:repo_path::RepoPath(Component)?::as_internal_(str|file_string)$") for c in calls)
    return reads_path, None


def rule_b(ctx):
    F = ctx.F
    sites = _sites(ctx)
    ctx.anchor("C32.b", "construction sites of repo path types", sites, 20)
    seen = set()
    for (root, b, bb, t, kind) in sites:
        ctx.fn_seen(b.id)
        cls = CLASS.get(root)
        seen.add(root)
        key = f"{root}|{kind}"
        if not root.startswith(("jj_lib::repo_path::", "<jj_lib::repo_path::")):
            ctx.ob("C32.b/site-classified", key, False, "repo path built outside repo_path.rs", where=b.file)
            continue
        if cls is None:
            ctx.ob("C32.b/site-classified", key, False,
                   f"unclassified construction of a repo path type from {show(t)[:120]}", where=b.file)
            continue
        if cls == "validated":
            vs = [c for c in b.calls if not c.cleanup and (c.res or "") in VALIDATORS]
            ok = False
            sl = F.slicer(b.id)
            for v in vs:
                trues, _ = bool_edges(F, b, v)
                same = norm(sl.call_arg(v, 0)) == norm(t) or \
                    {l[1] for l in term_leaves(sl.call_arg(v, 0)) if l[0] == "param"} == {l[1] for l in term_leaves(t) if l[0] == "param"}
                if trues and same and b.set_dominated(bb, set(trues)):
                    ok = True
            ctx.ob("C32.b/site-classified", key, ok, "on the true edge of the validator applied to the same value" if ok
                   else "a validated constructor builds the path without (or around) its validator", where=b.file)
        elif cls == "empty":
            st = strip(t)
            ok = st == ("const", "") or (isinstance(st, tuple) and st[0] == "call" and name_matches(st[1], "re:String::new$"))
            ctx.ob("C32.b/site-classified", key, ok, "empty root" if ok else f"root built from {show(t)[:80]}")
        elif cls == "derived":
            ok, bad = _derived_only(t, b)
            ctx.ob("C32.b/site-classified", key, ok, f"derived from existing repo paths: {show(t)[:100]}" if ok else
                   f"value not derived from existing repo paths only: {show(t)[:140]} (leaf {bad})", where=b.file)
        elif cls == "normal-components":
            ok = _normal_components(ctx, b, t)
            ctx.ob("C32.b/site-classified", key, ok, "every pushed piece comes from the Component::Normal arm" if ok else
                   "from_relative_path can push a non-Normal component (e.g. `..`)", where=b.file)
    missing = [r for r, c in CLASS.items() if c == "validated" and r not in seen]
    ctx.ob("C32.b/validated-constructors-present", "table", not missing, "all validated constructors found" if not missing
           else f"missing: {missing}")


def _normal_components(ctx, b, t):
    F = ctx.F
    # the closure mapped over components(): Ok only on the Normal arm
    fam = F.family_bodies(b.root)
    ok_closure = False
    for cb in fam:
        for bb, sw in cb.switches():
            ds = cb.discr_source(bb)
            if ds and ds[1] == "std::path::Component":
                normal = cb.variant_edge(bb, "Normal")
                okn, errn, other = ok_exit_nodes(F, cb)
                # every non-Err result is produced under the Normal edge
                prod = okn + other
                ok_closure = normal is not None and bool(prod) and all(cb.set_dominated(x, {normal}) for x in prod)
    # every push_str on the value has an argument that went through `?` on that iterator (or is the '/' separator)
    sl = F.slicer(b.id)
    pushes = [c for c in b.calls if not c.cleanup and name_matches(c.res or c.decl or "", "re:String::push_str$")]
    ok_push = bool(pushes)
    for p in pushes:
        a = sl.call_arg(p, 1)
        if not any(w[0] == "try" for w in walk(a)):
            ok_push = False
    return ok_closure and ok_push


def rule_c(ctx):
    F = ctx.F
    root = RP + "RepoPath::to_fs_path"
    b = F.body(root)
    if ctx.anchor("C32.c", root, 1 if b else 0, 1):
        ctx.fn_seen(root)
        sl = F.slicer(root)
        pushes = [c for c in b.calls if not c.cleanup and name_matches(c.res or c.decl or "", "re:PathBuf::push$")]
        comp = 0
        okall = True
        for p in pushes:
            a = sl.call_arg(p, 1)
            st = strip(a)
            if st == ("const", "."):
                continue
            if isinstance(st, tuple) and st[0] == "param" and st[2] == "base":
                continue
            if any(x[1] == RP + "RepoPathComponent::to_fs_name" for x in term_calls(a)) and any(w[0] == "try" for w in walk(a)):
                comp += 1
                continue
            okall = False
        ctx.ob("C32.c/pushes-checked-components", root, okall and comp >= 1,
               f"{comp} component push(es), each a to_fs_name()? result" if okall else
               "to_fs_path pushes a component that did not pass to_fs_name()")
        ext = [c for c in b.calls if not c.cleanup and name_matches(c.res or c.decl or "", "re:PathBuf.*::extend$|::join$")]
        ctx.ob("C32.c/no-bulk-extend", root, not ext, "no extend/join of raw components" if not ext else "raw extend in to_fs_path")
    root = RP + "RepoPathComponent::to_fs_name"
    b = F.body(root)
    if ctx.anchor("C32.c", root, 1 if b else 0, 1):
        ctx.fn_seen(root)
        okn, errn, other = ok_exit_nodes(F, b)
        edges = set()
        for bb, sw in b.switches():
            ds = b.discr_source(bb)
            if ds and ds[1] == "std::path::Component":
                e = b.variant_edge(bb, "Normal")
                if e is not None:
                    edges.add(e)
        ok = bool(edges) and bool(okn) and all(b.set_dominated(x, edges) for x in okn)
        # and the second component must be None: an eq comparison with the original value guards Ok as well
        eqs = [c for c in b.calls if not c.cleanup and c.decl in ("std::cmp::PartialEq::eq",)]
        ok2 = False
        for e in eqs:
            trues, _ = bool_edges(F, b, e)
            if trues and all(b.set_dominated(x, set(trues)) for x in okn):
                ok2 = True
        ctx.ob("C32.c/fs-name-only-normal", root, ok and ok2,
               "Ok only for (Some(Normal(name)), None) with name == value" if ok and ok2 else
               "to_fs_name can return Ok for a non-Normal component (., .., prefix, separator inside)")


def rule_d(ctx):
    F = ctx.F
    sites = F.all_calls_to(RP + "RepoPath::to_fs_path_unchecked")
    ctx.anchor("C32.d", "to_fs_path_unchecked call sites", sites, 9)
    by = {}
    for c in sites:
        by.setdefault(c.body.root, []).append(c)
    for root, cs in sorted(by.items()):
        ent = UNCHECKED_FS_SITES.get(root)
        ok = ent is not None and len(cs) <= ent[0]
        ctx.ob("C32.d/unchecked-fs-path-callers", root, ok, ent[1] if ok else
               "to_fs_path_unchecked (may point outside the workspace) is used at a site that is not tabled as "
               "display-only", where=cs[0].where(), sites=len(cs))
