"""C03  Content diffs partition their inputs deterministically (determinism clause).

The word hasher is seeded randomly per diff (RandomState), so the hunks are the same on every run only if no
iteration order of a hash container reaches the output.
a. inside the cone of ContentDiff's constructors/hunk iterators (jj-core), hash containers are iterated only at the
   tabled site Histogram::build_count_to_entries, which buckets entries by count into a BTreeMap
b. the consumers of those buckets are order-insensitive: positions are sorted on both sides before the LCS, and no
   consumer picks an element by position (next/first/take/...) from a bucket
"""
from jjv.lib import cone_calls, name_matches, show, strip, term_calls

D = "jj_core::diff::"
HASH_ITER = ("re:^std::collections::(HashMap|HashSet)::<.*>::(iter|iter_mut|keys|values|values_mut|drain|retain|extract_if|into_keys|into_values)$",
             "re:hashbrown::.*::(iter|iter_mut|keys|values|values_mut|drain|retain|extract_if|into_iter|iter_hash)$",
             "re:^<.*(HashMap|HashSet|HashTable).* as std::iter::IntoIterator>::into_iter$")
ALLOWED = {(D + "Histogram::<'input>::build_count_to_entries", "<&'a hashbrown::HashTable<T, A> as std::iter::IntoIterator>::into_iter"):
           "entries are bucketed by occurrence count into a BTreeMap; per-bucket order only renumbers `serial`, and both "
           "position vectors are sorted by word position before the LCS"}


def run(ctx):
    F = ctx.F
    ctx.explanation = (
        "Forbidden-call rule over the call-graph cone of ContentDiff::{for_tokenizer, by_line, by_word, unrefined, "
        "refine_changed_regions, hunks, hunk_ranges} in jj-core: order-revealing methods of HashMap/HashSet/hashbrown "
        "tables may be called only at one tabled site; the exception is justified by a second rule: in "
        "collect_unchanged_words_lcs both position vectors are sorted (>= 2 sort_unstable_by_key) and every call fed by "
        "the buckets is an order-insensitive adaptor (no next/first/last/nth/take/skip/min/max/position on bucket "
        "contents).")
    ctx.clauses = ["no hash-order iteration reaches the diff output"]
    ctx.not_decided = ["reconstruction of the inputs from hunks", "equality of matching hunks under the comparison",
                       "non-emptiness and alternation of hunks (all value-level)"]
    roots = F.find_fns("re:^jj_core::diff::ContentDiff::<.*>::(for_tokenizer|hunks|hunk_ranges|by_line|by_word|"
                       "refine_changed_regions|unrefined)$", roots_only=True)
    ctx.anchor("C03.a", "ContentDiff entry points", roots, 5)
    cone = F.cg.cone(roots, crates=("jj_core",))
    ctx.anchor("C03.a", "functions in the diff cone", cone, 25)
    ctx.fn_seen(*cone)
    hits = sorted(set(cone_calls(F, cone, HASH_ITER)))
    seen = 0
    for root, callee in hits:
        ent = ALLOWED.get((root, callee))
        n = len(F.family_calls(root, callee))
        ok = ent is not None and n == 1
        seen += ok
        ctx.ob("C03.a/no-hash-order-iteration", f"{root}->{callee}", ok, ent if ok else
               "a hash container is iterated inside the diff algorithm: with the per-diff random hasher the hunks can "
               "differ from run to run", sites=max(n, 1))
    ctx.anchor("C03.a", "tabled hash iteration site found", seen, 1)
    # positive control: the matcher recognises std HashMap iteration elsewhere in the workspace
    ctrl = F.q("SELECT count(*) AS n FROM call WHERE res LIKE 'std::collections::HashMap::<%>::iter' OR "
               "res LIKE 'std::collections::HashMap::<%>::values' OR res LIKE 'std::collections::HashMap::<%>::keys'")[0]["n"]
    ctx.ob("C03.a/matcher-positive-control", "workspace", ctrl > 0 and
           bool(name_matches("std::collections::HashMap::<K, V, S>::values", HASH_ITER)),
           f"{ctrl} std HashMap iteration call sites exist elsewhere and match the pattern")
    # the bucket map itself must be ordered
    b = F.body(D + "Histogram::<'input>::build_count_to_entries")
    if ctx.anchor("C03.b", "build_count_to_entries", 1 if b else 0, 1):
        names = [c.res or c.decl or "" for c in b.calls if not c.cleanup]
        ordered = any("BTreeMap" in n for n in names) and not any("HashMap" in n and "::new" in n for n in names)
        ctx.ob("C03.b/buckets-in-ordered-map", b.id, ordered, "buckets are keyed in a BTreeMap" if ordered else
               "the count buckets are no longer kept in an ordered map")
    rule_b(ctx)


def rule_b(ctx):
    F = ctx.F
    root = D + "collect_unchanged_words_lcs"
    fam = F.family_bodies(root)
    if not ctx.anchor("C03.b", root, fam, 1):
        return
    sorts = [c for b in fam for c in b.calls if not c.cleanup and name_matches(c.res or c.decl or "", "re:sort(_unstable)?_by_key$|sort_unstable$|::sort$")]
    ctx.ob("C03.b/positions-sorted-both-sides", root, len(sorts) >= 2,
           f"{len(sorts)} sort calls on the position vectors" if len(sorts) >= 2 else
           "left/right positions are not both sorted before the LCS: bucket (hash) order leaks into the result")
    picky = "re:Iterator::(next|last|nth|take|skip|step_by|min|max|min_by|max_by|min_by_key|max_by_key|position|rposition|find|take_while|skip_while)$|slice.*::(first|last|get|split_first|split_last)$|Vec.*::(pop|remove|swap_remove|truncate)$"
    bad = []
    n = 0
    for b in fam:
        sl = F.slicer(b.id)
        for c in b.calls:
            if c.cleanup or not c.args:
                continue
            name = c.res or c.decl or ""
            t = sl.call_arg(c, 0)
            from_buckets = any(x[1].endswith("build_count_to_entries") for x in term_calls(t))
            if not from_buckets and b.id != root:
                # closures receive the buckets as parameters (left_entries)
                from_buckets = any(l[0] == "param" and "entries" in (l[2] or "") for l in
                                   __import__("jjv.lib", fromlist=["term_leaves"]).term_leaves(t))
            if not from_buckets:
                continue
            n += 1
            if name_matches(name, picky):
                top = strip(t)
                # `count_to_entries.keys().next()` reads the smallest count of the ordered map: fine
                if isinstance(top, tuple) and top[0] == "call" and "BTreeMap" in top[1] and name.endswith("::next"):
                    continue
                bad.append((name, c.where()))
    ctx.ob("C03.b/bucket-consumers-order-insensitive", root, n >= 3 and not bad,
           f"{n} consumers of the buckets, none position-dependent" if not bad else
           f"a consumer picks bucket elements by position ({bad[0][0].split('::')[-1]} @ {bad[0][1]}): depends on hash order",
           sites=max(n, 1))
