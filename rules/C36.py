"""C36  Expression parsers never crash (two statically decidable panic sources).

a. every escape spelling a grammar accepts is handled by StringLiteralParser::parse -- otherwise its
   `panic!("invalid escape")` arm is reachable from user input; the hex form is exactly two hex digits so the
   `expect("hex characters")` cannot fail
b. alias expansion cannot recurse unboundedly: the recursive fold is reached only after the `already expanding`
   test returned false, and push/pop of the expansion stack are paired on every path
c. inventory of panic-capable sites in the parser modules (informational)
"""
import os

from jjv.lib import bool_edges, name_matches, show, strip, term_calls, term_fields
from rules.escapes_common import GRAMMARS, grammar_escapes, parser_map, pest_rules


def run(ctx):
    F = ctx.F
    ctx.explanation = (
        "Table agreement and dominance: the escape spellings accepted by string_escape in each .pest grammar are a "
        "subset of the spellings handled by StringLiteralParser::parse (string comparisons + the starts_with('x') "
        "arm, read from MIR), so the `invalid escape` panic is unreachable; the grammars require exactly two hex "
        "digits after \\\\x; in AliasExpander::expand_defn the recursion (fold_expression in the and_then closure) is "
        "reachable only on the false edge of states.iter().any(|s| s.id == id) whose true edge returns "
        "recursive_expansion, and states.push precedes it (the guard can see the alias).")
    ctx.clauses = ["grammar escapes ⊆ parser escapes (no reachable `invalid escape` panic)", "hex escapes are well-formed",
                   "alias recursion guard"]
    ctx.not_decided = ["stack depth on deeply nested input (pest recursive descent has no depth limit)",
                       "all other unwrap()/expect() on parse trees (justified by grammar shape; inventory only)"]
    qm, hexarm = parser_map(F)
    if not ctx.anchor("C36.a", "parser escape table", qm or {}, 6):
        return
    handled = set(qm) | ({"xHH"} if hexarm else set())
    for g, rel in GRAMMARS.items():
        rules = pest_rules(os.path.join(ctx.repo, rel))
        gs = grammar_escapes(rules.get("string_escape", ("", ""))[1])
        if not ctx.anchor("C36.a", f"{g}.pest string_escape", gs or [], 6):
            continue
        for esc in sorted(gs):
            ok = esc in handled
            ctx.ob("C36.a/grammar-escape-handled", f"{g}|{esc!r}", ok, "handled by StringLiteralParser::parse" if ok else
                   f"{g}.pest accepts the escape \\{esc} but StringLiteralParser::parse panics on it "
                   f"(`invalid escape`) -- reachable from user input")
        ctx.ob("C36.a/hex-escape-two-digits", g, "x?" not in gs, "\\x is followed by ASCII_HEX_DIGIT{2}" if "x?" not in gs else
               "the grammar accepts \\x without exactly two hex digits: from_str_radix(..).expect() can panic")
    rule_b(ctx)
    rule_c(ctx)


def rule_b(ctx):
    F = ctx.F
    roots = F.find_fns("re:^jj_lib::dsl_util::AliasExpander::<.*>::expand_defn$", roots_only=True)
    if not ctx.anchor("C36.b", "AliasExpander::expand_defn", roots, 1):
        return
    root = roots[0]
    b = F.body(root)
    ctx.fn_seen(root)
    sl = F.slicer(root)
    anys = [c for c in b.calls if not c.cleanup and c.decl == "std::iter::Iterator::any"]
    guard_false, guard_true = set(), set()
    for a in anys:
        # the predicate compares the alias id
        pred = sl.call_arg(a, 1)
        clos = [x[1][8:] for x in term_calls(pred) if x[1].startswith("closure:")]
        cmp_ok = False
        for cl in clos:
            cb = F.body(cl)
            if cb and any(c.decl in ("std::cmp::PartialEq::eq",) and "AliasId" in ((c.self_ty or "") + c.generics)
                          for c in cb.calls if not c.cleanup):
                cmp_ok = True
        if cmp_ok:
            t, f = bool_edges(F, b, a)
            guard_true |= set(t)
            guard_false |= set(f)
    ctx.ob("C36.b/recursion-test-present", root, bool(guard_false), "states.iter().any(|s| s.id == id) is tested" if guard_false
           else "expand_defn no longer tests whether the alias is already being expanded")
    pushes = [c for c in b.calls if not c.cleanup and name_matches(c.res or c.decl or "", "re:Vec.*::push$")]
    pops = [c for c in b.calls if not c.cleanup and name_matches(c.res or c.decl or "", "re:Vec.*::pop$")]
    rec = []
    for c in b.calls:
        if c.cleanup:
            continue
        for k in range(len(c.args)):
            for x in term_calls(sl.call_arg(c, k)):
                if x[1].startswith("closure:"):
                    cb = F.body(x[1][8:])
                    if cb and any(name_matches(y.res or y.decl or "", "re:fold_expression$") for y in cb.calls if not y.cleanup):
                        rec.append(c)
    rec += [c for c in b.calls if not c.cleanup and name_matches(c.res or c.decl or "", "re:fold_expression$")]
    ctx.anchor("C36.b", "recursive fold sites", rec, 1)
    for r in rec:
        ok = bool(guard_false) and b.set_dominated(r.bb, guard_false)
        ctx.ob("C36.b/recursion-guarded", root, ok, "the recursive fold is reachable only when the alias is not already "
               "being expanded" if ok else "alias expansion can recurse into an alias that is already being expanded "
                                            "(unbounded recursion / stack overflow)", where=r.where())
        okp = bool(pushes) and b.set_dominated(r.bb, {p.bb for p in pushes})
        ctx.ob("C36.b/state-pushed-before-recursion", root, okp, "states.push precedes the recursive fold" if okp else
               "the expansion state is not recorded before recursing (the guard never sees it)", where=r.where())
    # the true edge returns an error without recursing
    for e in guard_true:
        p = b.path_avoiding([e], [r.bb for r in rec])
        ctx.ob("C36.b/recursive-alias-is-an-error", root, p is None, "the `already expanding` edge cannot reach the fold"
               if p is None else "the already-expanding edge still reaches the recursive fold")


def rule_c(ctx):
    F = ctx.F
    mods = ("jj_lib::revset_parser::", "jj_lib::fileset_parser::", "jj_cli::template_parser::", "jj_lib::dsl_util::")
    inv = {}
    for m in mods:
        rows = F.q("SELECT coalesce(res, decl) AS n, count(*) AS c FROM call WHERE cleanup=0 AND (caller LIKE ? OR caller LIKE ?) "
                   "AND (coalesce(res,decl) LIKE '%::unwrap' OR coalesce(res,decl) LIKE '%::expect' OR "
                   "coalesce(res,decl) LIKE 'core::panicking::%') GROUP BY 1", (m + "%", "<" + m + "%"))
        inv[m] = {r["n"]: r["c"] for r in rows}
    ctx.info["panic_capable_sites_inventory"] = inv
