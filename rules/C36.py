"""C36  Expression parsers never crash (two statically decidable panic sources).

a. every escape spelling a grammar accepts is handled by StringLiteralParser::parse -- otherwise its
   `panic!("invalid escape")` arm is reachable from user input; the hex form is exactly two hex digits so the
   `expect("hex characters")` cannot fail
b. alias expansion cannot recurse unboundedly: the recursive fold is reached only after the `already expanding`
   test returned false, and push/pop of the expansion stack are paired on every path
c. inventory of panic-capable sites in the parser modules (informational)
d. dispatch exhaustiveness against the grammar: every `match pair.as_rule()` in the parsers whose fallback arm panics
   handles every rule the .pest grammar can put at that position (first child / any child of the parent rule, Pratt
   primaries = children of `expression` not registered as operators, Pratt operators = those registered with
   Op::prefix/postfix/infix); helper dispatchers called with the matched pair handle every rule of the calling arm
f. sorted-overloads invariant: the alias function overloads are consumed as a list sorted by arity (min_arity = first,
   max_arity = last, find_by_arity = binary search; `max - min + 1` is computed unchecked on the error path), so every
   mutation of that list in AliasesMap::insert must keep it sorted (replace at the binary-search hit, insert at the
   binary-search miss position)
e. fixed-arity destructuring: `let [a, b, ..] = pair.into_inner().collect_array().unwrap()` inside the arm for rule X
   requires that X has exactly that many children in every derivation of the grammar
"""
import os
import re

from jjv.lib import bool_edges, name_matches, norm, show, strip, term_calls, term_fields
from rules.escapes_common import GRAMMARS, grammar_escapes, parser_map, pest_rules
from rules.pest_grammar import Grammar


def run(ctx):
    F = ctx.F
    ctx.explanation = (
        "Table agreement and dominance: the escape spellings accepted by string_escape in each .pest grammar are a "
        "subset of the spellings handled by StringLiteralParser::parse (string comparisons + the starts_with('x') "
        "arm, read from MIR), so the `invalid escape` panic is unreachable; the grammars require exactly two hex "
        "digits after \\\\x; in AliasExpander::expand_defn the recursion (fold_expression in the and_then closure) is "
        "reachable only on the false edge of states.iter().any(|s| s.id == id) whose true edge returns "
        "recursive_expansion, and states.push precedes it (the guard can see the alias).")
    ctx.clauses = ["grammar escapes ⊆ parser escapes (no reachable `invalid escape` panic)", "hex escapes are well-formed",
                   "alias recursion guard"]
    ctx.not_decided = ["stack depth on deeply nested input (pest recursive descent has no depth limit)",
                       "all other unwrap()/expect() on parse trees (justified by grammar shape; inventory only)"]
    qm, hexarm = parser_map(F)
    if not ctx.anchor("C36.a", "parser escape table", qm or {}, 6):
        return
    # structured view of the parser: literal arms (==), prefix arms (starts_with), numeric conversions
    pb = F.body("jj_lib::dsl_util::StringLiteralParser::<R>::parse")
    psl = F.slicer(pb.id)
    prefixes = set()
    for c in pb.calls:
        if not c.cleanup and name_matches(c.res or c.decl or "", "re:str>::starts_with"):
            k = strip(psl.call_arg(c, 1))
            if isinstance(k, tuple) and k[0] == "const":
                prefixes.add(k[1] if isinstance(k[1], str) else chr(k[1]))
    radix_bits = []
    for c in pb.calls:
        m_ = re.search(r"num::<impl (u\d+)>::from_str_radix$", c.res or c.decl or "")
        if m_ and not c.cleanup:
            radix_bits.append(int(m_.group(1)[1:]))
    names = [(c.res or c.decl or "") for c in pb.calls if not c.cleanup]
    fallible_char = any(n.endswith("char::from_u32") or n.endswith("char::methods::<impl char>::from_u32") or n.endswith("::from_digit") for n in names)
    unwraps_option = any(name_matches(n, "re:Option::<T>::(expect|unwrap)$") for n in names)
    from jjv.lib import term_calls as _tc
    char_unwrapped = False
    for c in pb.calls:
        if not c.cleanup and name_matches(c.res or c.decl or "", "re:Option::<T>::(expect|unwrap)$"):
            t = psl.call_arg(c, 0)
            if any(name_matches(x[1], "re:from_u32$|from_digit$") for x in _tc(t)):
                char_unwrapped = True
    from rules.pest_grammar import escape_alternatives
    for g, rel in GRAMMARS.items():
        alts_ = escape_alternatives(Grammar(os.path.join(ctx.repo, rel)))
        if not ctx.anchor("C36.a", f"{g}.pest string_escape alternatives", alts_ or [], 6):
            continue
        for lead, tail in alts_:
            if lead is None or any(t_[0] == "other" for t_ in tail):
                ctx.ob("C36.a/grammar-escape-handled", f"{g}|?", False, f"{g}.pest has an escape alternative the rule cannot read")
                continue
            if not tail:
                ok = lead in qm
                ctx.ob("C36.a/grammar-escape-handled", f"{g}|{lead!r}", ok, "handled by a literal arm of StringLiteralParser::parse" if ok else
                       f"{g}.pest accepts the escape \\{lead} but StringLiteralParser::parse has no arm for it: its "
                       f"`invalid escape` panic is reachable from user input")
                continue
            okp = any(lead.startswith(p_) for p_ in prefixes)
            ctx.ob("C36.a/grammar-escape-handled", f"{g}|{lead!r}+digits", okp,
                   f"handled by the starts_with arm ({sorted(prefixes)})" if okp else
                   f"{g}.pest accepts the escape \\{lead}.. but StringLiteralParser::parse has no starts_with arm for it "
                   f"(`invalid escape` panic reachable)")
            for t_ in tail:
                if t_[0] != "hex":
                    continue
                lo, hi = t_[1], t_[2]
                bits = max(radix_bits) if radix_bits else 0
                okw = hi is not None and lo >= 1 and bits and 4 * hi <= bits
                if lead == "x":
                    okw = okw and (lo, hi) == (2, 2)
                ctx.ob("C36.a/hex-digits-fit-the-conversion", f"{g}|{lead!r}", bool(okw),
                       f"{lo}..{hi} hex digits fit from_str_radix::<u{bits}>" if okw else
                       f"the grammar admits {lo}..{hi if hi is not None else 'unbounded'} hex digits after \\{lead} but the parser "
                       f"converts them with from_str_radix into {bits} bits and expect()s the result")
                if hi is None or 16 ** hi - 1 > 0xFF:
                    # values beyond a byte are turned into a char: char::from_u32 is partial (surrogates, > 0x10FFFF)
                    okc = not (fallible_char and char_unwrapped)
                    ctx.ob("C36.a/code-point-conversion-total", f"{g}|{lead!r}", okc,
                           "no unwrapped char::from_u32" if okc else
                           f"the grammar admits code points up to {hex(16 ** hi - 1) if hi else 'any size'} after \\{lead}, and "
                           f"the parser unwraps char::from_u32(..): surrogates / values above 0x10FFFF panic -- reachable from "
                           f"user input")
    rule_b(ctx)
    rule_c(ctx)
    rule_d(ctx)
    rule_e(ctx)
    rule_f(ctx)


def rule_b(ctx):
    F = ctx.F
    roots = F.find_fns("re:^jj_lib::dsl_util::AliasExpander::<.*>::expand_defn$", roots_only=True)
    if not ctx.anchor("C36.b", "AliasExpander::expand_defn", roots, 1):
        return
    root = roots[0]
    b = F.body(root)
    ctx.fn_seen(root)
    sl = F.slicer(root)
    anys = [c for c in b.calls if not c.cleanup and c.decl == "std::iter::Iterator::any"]
    guard_false, guard_true = set(), set()
    for a in anys:
        # the predicate compares the alias id
        pred = sl.call_arg(a, 1)
        clos = [x[1][8:] for x in term_calls(pred) if x[1].startswith("closure:")]
        cmp_ok = False
        for cl in clos:
            cb = F.body(cl)
            if cb and any(c.decl in ("std::cmp::PartialEq::eq",) and "AliasId" in ((c.self_ty or "") + c.generics)
                          for c in cb.calls if not c.cleanup):
                cmp_ok = True
        if cmp_ok:
            t, f = bool_edges(F, b, a)
            guard_true |= set(t)
            guard_false |= set(f)
    ctx.ob("C36.b/recursion-test-present", root, bool(guard_false), "states.iter().any(|s| s.id == id) is tested" if guard_false
           else "expand_defn no longer tests whether the alias is already being expanded")
    pushes = [c for c in b.calls if not c.cleanup and name_matches(c.res or c.decl or "", "re:Vec.*::push$")]
    pops = [c for c in b.calls if not c.cleanup and name_matches(c.res or c.decl or "", "re:Vec.*::pop$")]
    rec = []
    for c in b.calls:
        if c.cleanup:
            continue
        for k in range(len(c.args)):
            for x in term_calls(sl.call_arg(c, k)):
                if x[1].startswith("closure:"):
                    cb = F.body(x[1][8:])
                    if cb and any(name_matches(y.res or y.decl or "", "re:fold_expression$") for y in cb.calls if not y.cleanup):
                        rec.append(c)
    rec += [c for c in b.calls if not c.cleanup and name_matches(c.res or c.decl or "", "re:fold_expression$")]
    ctx.anchor("C36.b", "recursive fold sites", rec, 1)
    for r in rec:
        ok = bool(guard_false) and b.set_dominated(r.bb, guard_false)
        ctx.ob("C36.b/recursion-guarded", root, ok, "the recursive fold is reachable only when the alias is not already "
               "being expanded" if ok else "alias expansion can recurse into an alias that is already being expanded "
                                            "(unbounded recursion / stack overflow)", where=r.where())
        okp = bool(pushes) and b.set_dominated(r.bb, {p.bb for p in pushes})
        ctx.ob("C36.b/state-pushed-before-recursion", root, okp, "states.push precedes the recursive fold" if okp else
               "the expansion state is not recorded before recursing (the guard never sees it)", where=r.where())
    # the true edge returns an error without recursing
    for e in guard_true:
        p = b.path_avoiding([e], [r.bb for r in rec])
        ctx.ob("C36.b/recursive-alias-is-an-error", root, p is None, "the `already expanding` edge cannot reach the fold"
               if p is None else "the already-expanding edge still reaches the recursive fold")


def rule_c(ctx):
    F = ctx.F
    mods = ("jj_lib::revset_parser::", "jj_lib::fileset_parser::", "jj_cli::template_parser::", "jj_lib::dsl_util::")
    inv = {}
    for m in mods:
        rows = F.q("SELECT coalesce(res, decl) AS n, count(*) AS c FROM call WHERE cleanup=0 AND (caller LIKE ? OR caller LIKE ?) "
                   "AND (coalesce(res,decl) LIKE '%::unwrap' OR coalesce(res,decl) LIKE '%::expect' OR "
                   "coalesce(res,decl) LIKE 'core::panicking::%') GROUP BY 1", (m + "%", "<" + m + "%"))
        inv[m] = {r["n"]: r["c"] for r in rows}
    ctx.info["panic_capable_sites_inventory"] = inv


# panicking dispatch site -> (grammar, parent rule, which children reach it); confirmed by reading the parsers
DISPATCH = {
    "jj_lib::revset_parser::parse_primary_node": ("revset", "primary", "first"),
    "<jj_lib::revset_parser::RevsetAliasParser as jj_lib::dsl_util::AliasDeclarationParser>::parse_declaration":
        ("revset", "alias_declaration", "first"),
    "<jj_lib::revset_parser::RevsetAliasParser as jj_lib::dsl_util::AliasDeclarationParser>::parse_declaration::{closure#0}":
        ("revset", "formal_parameters", "any"),
    "jj_lib::revset_parser::parse_as_string_literal": ("revset", "symbol_name", "first"),
    "jj_lib::fileset_parser::parse_primary_node": ("fileset", "primary", "first"),
    "jj_lib::fileset_parser::parse_program_or_bare_string": ("fileset", "program_or_bare_string", "first"),
    "<jj_lib::fileset_parser::FilesetAliasParser as jj_lib::dsl_util::AliasDeclarationParser>::parse_declaration":
        ("fileset", "alias_declaration", "first"),
    "<jj_lib::fileset_parser::FilesetAliasParser as jj_lib::dsl_util::AliasDeclarationParser>::parse_declaration::{closure#0}":
        ("fileset", "formal_parameters", "any"),
    "jj_cli::template_parser::parse_term_node": ("template", "primary", "first"),
    "jj_cli::template_parser::parse_template_node::{closure#0}": ("template", "template", "any"),
    "<jj_cli::template_parser::TemplateAliasParser as jj_lib::dsl_util::AliasDeclarationParser>::parse_declaration":
        ("template", "alias_declaration", "first"),
}
PRATT_FNS = {"revset": "jj_lib::revset_parser::parse_expression_node", "fileset": "jj_lib::fileset_parser::parse_expression_node",
             "template": "jj_cli::template_parser::parse_expression_node"}
PRATT_PARENT = "expression"
NESTED = ("jj_lib::revset_parser::parse_as_string_literal", "jj_lib::fileset_parser::parse_as_string_literal",
          "jj_cli::template_parser::parse_string_literal")


def rule_switch_sites(F, b):
    """[(bb, handled variant names, fallback panics?, {variant: edge node})] for switches on a pest Rule discriminant"""
    out = []
    for bb, t in b.switches():
        ds = b.discr_source(bb)
        if not ds or not ds[1] or not ds[1].endswith("_parser::Rule"):
            continue
        handled = {ds[2].get(int(v)) for v, _ in t["vals"]}
        edges = {ds[2].get(int(v)): b.edge_node(bb, int(v)) for v, _ in t["vals"]}
        e = b.edge_node(bb, "else")
        pan = False
        if e is not None:
            reach = b.reachable_from([e], avoid=list(edges.values()))
            rets = [x for x in reach if x < b.n and b.blocks[x]["t"]["k"] == "return"]
            pcs = [x for x in reach if x < b.n and b.blocks[x]["t"]["k"] == "call" and
                   "panic" in (b.blocks[x]["t"]["f"].get("r") or b.blocks[x]["t"]["f"].get("d") or "")]
            pan = not rets and bool(pcs)
        out.append((bb, handled, pan, edges))
    return out


def rule_d(ctx):
    F = ctx.F
    G = {g: Grammar(os.path.join(ctx.repo, rel)) for g, rel in GRAMMARS.items()}
    n_sites = 0

    def judge(key, g, where_txt, expected, handled, panics):
        nonlocal n_sites
        n_sites += 1
        if not panics:
            ctx.ob("C36.d/dispatch-covers-grammar", key, True, "fallback arm does not panic")
            return
        missing = sorted(expected - handled)
        ctx.ob("C36.d/dispatch-covers-grammar", key, not missing,
               f"handles all {len(expected)} rules {g}.pest can produce {where_txt}" if not missing else
               f"{g}.pest can produce {missing} {where_txt}, but the match on pair.as_rule() falls through to panic!() for "
               f"{'it' if len(missing) == 1 else 'them'}: reachable from user input")

    # 1. tabled first/any sites
    for fid, (g, parent, mode) in DISPATCH.items():
        b = F.body(fid)
        if not ctx.anchor("C36.d", f"dispatch function {fid}", [b] if b is not None else [], 1):
            continue
        ctx.fn_seen(fid)
        if parent not in G[g].ast:
            ctx.ob("C36.d/dispatch-covers-grammar", fid, False, f"grammar rule {parent} no longer exists in {g}.pest")
            continue
        expected = (G[g].first(parent) if mode == "first" else G[g].children(parent)) - {"EOI"}
        sites = rule_switch_sites(F, b)
        if not ctx.anchor("C36.d", f"{fid}: match on Rule", sites, 1):
            continue
        # the dispatching switch is the one with the largest overlap with the expected set
        bb, handled, pan, _ = max(sites, key=lambda s_: len(s_[1] & expected))
        judge(fid, g, f"as {'the first child' if mode == 'first' else 'a child'} of `{parent}`", expected, handled, pan)
    # 2. Pratt parsers
    for g, fid in PRATT_FNS.items():
        b = F.body(fid)
        if not ctx.anchor("C36.d", f"Pratt driver {fid}", [b] if b is not None else [], 1):
            continue
        ctx.fn_seen(fid)
        sl = F.slicer(b.id)
        reg = {"prefix": set(), "postfix": set(), "infix": set()}
        init = [f for f in F.find_fns("re:^" + re.escape(fid) + r"::PRATT::\{closure#0\}$")]
        for f in init:
            ib = F.body(f)
            isl = F.slicer(f)
            for c in ib.calls:
                m = re.search(r"pratt_parser::Op::<R>::(prefix|postfix|infix)$", c.res or c.decl or "")
                if m and not c.cleanup:
                    t = strip(isl.call_arg(c, 0))
                    txt = show(t)
                    mm = re.search(r"Rule::(\w+)", txt)
                    if mm:
                        reg[m.group(1)].add(mm.group(1))
        if not ctx.anchor("C36.d", f"{g}: operators registered with the Pratt parser", set().union(*reg.values()), 1):
            continue
        kids = G[g].children(PRATT_PARENT)
        allreg = set().union(*reg.values())
        closures = {}
        fnhandlers = {}
        for c in b.calls:
            m = re.search(r"::map_(primary|prefix|postfix|infix)$", c.res or c.decl or "")
            if m and not c.cleanup:
                t = strip(sl.call_arg(c, 1))
                if isinstance(t, tuple) and t[0] == "call" and str(t[1]).startswith("closure:"):
                    closures[m.group(1)] = t[1][8:]
                elif isinstance(t, tuple) and t[0] == "fnconst":
                    fnhandlers[m.group(1)] = t[1]
        ctx.anchor("C36.d", f"{g}: Pratt map_* handlers", list(closures) + list(fnhandlers), 3)
        for kind, cid in sorted(closures.items()):
            cb = F.body(cid)
            if cb is None:
                continue
            ctx.fn_seen(cid)
            expected = (kids - allreg) if kind == "primary" else (reg[kind] & kids)
            sites = rule_switch_sites(F, cb)
            if not sites:
                # no dispatch (e.g. a single primary kind handled unconditionally)
                if kind == "primary" or not expected:
                    continue
                ctx.ob("C36.d/dispatch-covers-grammar", cid, False, f"map_{kind} closure has no match on the operator rule")
                continue
            bb, handled, pan, _ = max(sites, key=lambda s_: len(s_[1] & expected))
            judge(cid, g, f"as a {kind} {'expression' if kind == 'primary' else 'operator'} inside `{PRATT_PARENT}`",
                  expected, handled, pan)
        for kind, hid in sorted(fnhandlers.items()):
            # a plain function installed as handler: it sees every rule of that kind
            hb = F.body(hid)
            expected = (kids - allreg) if kind == "primary" else (reg[kind] & kids)
            direct = []
            if hb is not None:
                hsl = F.slicer(hid)
                for bb2, hs, pan2, _ in rule_switch_sites(F, hb):
                    sw = strip(hsl.place(hb.discr_source(bb2)[0], at=bb2))
                    for x in term_calls(sw):
                        if name_matches(x[1], "re:Pair::<.*>::as_rule$") and strip(x[2][0])[0] == "param":
                            direct.append((hs, pan2))
            if direct:
                judge(hid, g, f"as a {kind} inside `{PRATT_PARENT}`", expected, direct[0][0], direct[0][1])
            else:
                n_sites += 1
                ctx.ob("C36.d/dispatch-covers-grammar", f"{hid}|map_{kind}", len(expected) <= 1,
                       f"single {kind} kind {sorted(expected)} handled uniformly" if len(expected) <= 1 else
                       f"{g}.pest can produce {sorted(expected)} as {kind} expressions inside `{PRATT_PARENT}`, but the handler "
                       f"{hid.split('::')[-1]} treats every one as the same rule (its unwrap()/assert on the node shape fails)")
        # every operator-like child must be either registered or a handled primary: covered by the primary check above;
        # a registered operator of a kind without closure would make pest panic
        for kind in ("prefix", "postfix", "infix"):
            if reg[kind] & kids and kind not in closures:
                ctx.ob("C36.d/dispatch-covers-grammar", f"{fid}|map_{kind}", False,
                       f"{sorted(reg[kind] & kids)} are registered as {kind} operators but no map_{kind} handler is installed")
    # 3. helper dispatchers called with the matched pair from an arm of another dispatch
    for fid in NESTED:
        cb = F.body(fid)
        if not ctx.anchor("C36.d", f"helper dispatcher {fid}", [cb] if cb is not None else [], 1):
            continue
        ctx.fn_seen(fid)
        sites = rule_switch_sites(F, cb)
        if not sites:
            continue
        _, handled, pan, _ = sites[0]
        g = "revset" if "revset" in fid else ("fileset" if "fileset" in fid else "template")
        expected = set()
        ncalls = 0
        for c in F.all_calls_to(fid):
            if c.cleanup:
                continue
            b = c.body
            for bb, hs, _, edges in rule_switch_sites(F, b):
                arms = {v for v, e in edges.items() if e is not None and c.bb in b.reachable_from([e], avoid=[x for x in edges.values() if x != e])}
                # only arms that reach the call exclusively through their own edge and pass the matched pair itself
                if not arms or len(arms) == len(edges):
                    continue
                csl = F.slicer(b.id)
                ds = b.discr_source(bb)
                arg = repr(norm(csl.call_arg(c, 0)))
                # the switched value is as_rule(&pair): the helper must be given that same pair
                sw = strip(csl.place(ds[0], at=bb))
                pair_terms = set()
                for x in term_calls(sw):
                    if name_matches(x[1], "re:Pair::<.*>::as_rule$"):
                        pair_terms.add(repr(norm(x[2][0])))
                if arg in pair_terms:
                    expected |= arms
                    ncalls += 1
        if expected:
            judge(fid, g, "in the arms of the dispatches that hand the matched pair to this helper", expected, handled, pan)
    ctx.anchor("C36.d", "dispatch sites checked against the grammar", n_sites, 24)


def rule_e(ctx):
    F = ctx.F
    G = {g: Grammar(os.path.join(ctx.repo, rel)) for g, rel in GRAMMARS.items()}
    n = 0
    skipped = []
    for c in F.all_calls_to("itertools::Itertools::collect_array"):
        b = c.body
        g = "revset" if "revset_parser" in b.id else "fileset" if "fileset_parser" in b.id else \
            "template" if "template_parser" in b.id else None
        if g is None or c.cleanup:
            continue
        sl = F.slicer(b.id)
        # N from the const generic argument of collect_array::<N>
        gen = b.blocks[c.bb]["t"]["f"].get("g") or ""
        m = re.search(r",\s*(\d+)_usize\]", gen)
        if not m:
            skipped.append(f"{b.id}@bb{c.bb}: arity not found in {gen!r}")
            continue
        N = int(m.group(1))
        src = strip(sl.call_arg(c, 0))
        inner = [x for x in term_calls(src) if name_matches(x[1], "re:Pair::<.*>::into_inner$")]
        if not inner:
            skipped.append(f"{b.id}@bb{c.bb}: not collecting into_inner()")
            continue
        pair = repr(norm(inner[0][2][0]))
        rules_here = set()
        for bb, hs, _, edges in rule_switch_sites(F, b):
            sw = strip(sl.place(b.discr_source(bb)[0], at=bb))
            same = any(name_matches(x[1], "re:Pair::<.*>::as_rule$") and repr(norm(x[2][0])) == pair for x in term_calls(sw))
            if not same:
                continue
            arms = {v for v, e in edges.items() if e is not None and
                    c.bb in b.reachable_from([e], avoid=[x for x in edges.values() if x != e])}
            if arms and len(arms) < len(edges):
                rules_here |= arms
        if not rules_here:
            skipped.append(f"{b.id}@bb{c.bb}: rule of the destructured pair not determined by an enclosing match")
            continue
        ctx.fn_seen(b.id)
        for r in sorted(rules_here):
            cnt = G[g].child_count(r) if r in G[g].ast else None
            n += 1
            ok = cnt is not None and cnt == (N, N)
            ctx.ob("C36.e/fixed-arity-destructuring", f"{b.id}|{r}|{N}", ok,
                   f"`{r}` always has {N} children" if ok else
                   f"{g}.pest gives `{r}` between {cnt[0] if cnt else '?'} and "
                   f"{'unbounded' if cnt and cnt[1] >= Grammar.INF else (cnt[1] if cnt else '?')} children, but the parser "
                   f"destructures exactly {N} with collect_array().unwrap(): panics on the other shapes", where=c.where())
    ctx.info["collect_array_sites_not_decided"] = skipped
    ctx.anchor("C36.e", "collect_array destructurings tied to a grammar rule", n, 10)


def rule_f(ctx):
    F = ctx.F
    D = "jj_lib::dsl_util::"
    cons = {"min_arity": D + "AliasFunctionOverloads::<'a, V>::min_arity", "max_arity": D + "AliasFunctionOverloads::<'a, V>::max_arity",
            "find_by_arity": D + "AliasFunctionOverloads::<'a, V>::find_by_arity"}
    relies = []
    for k, fid in cons.items():
        b = F.body(fid)
        if b is None:
            continue
        ctx.fn_seen(fid)
        ns = {c.res or "" for c in b.calls if not c.cleanup} | {c.decl or "" for c in b.calls if not c.cleanup}
        if k == "find_by_arity" and any(n.endswith("binary_search_by_key") or n.endswith("binary_search_by") for n in ns):
            relies.append("find_by_arity: binary search")
        if k == "min_arity" and any(n.endswith("Iterator::next") for n in ns) and not any(n.endswith("Iterator::min") for n in ns):
            relies.append("min_arity: first element")
        if k == "max_arity" and any(n.endswith("DoubleEndedIterator::next_back") or n.endswith("::last") for n in ns) and \
                not any(n.endswith("Iterator::max") for n in ns):
            relies.append("max_arity: last element")
    ctx.info["overload_consumers_relying_on_sorted_order"] = relies
    ins = F.body(D + "AliasesMap::<P, V>::insert")
    if not ctx.anchor("C36.f", "AliasesMap::insert", [ins] if ins is not None else [], 1):
        return
    ctx.fn_seen(ins.id)
    if not relies:
        ctx.ob("C36.f/overloads-kept-sorted", ins.id, True, "no consumer relies on the order of the overload list")
        return
    sl = F.slicer(ins.id)
    bad = []
    n_mut = 0
    for c in ins.calls:
        if c.cleanup:
            continue
        n = c.res or c.decl or ""
        m = re.search(r"^std::vec::Vec::<.*>::(push|insert|extend|append|extend_from_slice|swap|swap_remove|remove|retain|truncate|"
                      r"dedup_by_key|sort|sort_by_key|sort_unstable_by_key|reverse|drain|splice)$", n)
        is_idx = n in ("std::ops::IndexMut::index_mut",) or n.endswith("IndexMut<I>>::index_mut")
        if not m and not is_idx:
            continue
        recv = sl.call_arg(c, 0)
        if not any(name_matches(x[1], "re:Entry::<'a, K, V>::or_default$|HashMap::<.*>::entry$") for x in term_calls(recv)):
            continue
        n_mut += 1
        kind = m.group(1) if m else "index_mut"
        if kind in ("sort", "sort_by_key", "sort_unstable_by_key"):
            continue
        if kind in ("insert", "index_mut"):
            pos = sl.call_arg(c, 1)
            if any(name_matches(x[1], "re:binary_search_by_key$|binary_search_by$|partition_point$") for x in term_calls(pos)):
                continue
            bad.append(f"{kind} at a position not obtained from a binary search")
        else:
            bad.append(kind)
    ctx.anchor("C36.f", "mutations of the overload list in AliasesMap::insert", n_mut, 1)
    ctx.ob("C36.f/overloads-kept-sorted", ins.id, not bad,
           f"overloads replaced/inserted only at the binary-search position ({'; '.join(relies)})" if not bad else
           f"AliasesMap::insert changes the overload list with {sorted(set(bad))} although its consumers assume it is sorted by arity "
           f"({'; '.join(relies)}): with overloads declared out of order, `max - min + 1` underflows / lookups miss -- a panic "
           f"reachable from user-defined aliases")
