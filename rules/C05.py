"""C05  Materialized conflicts parse back to the same conflict (marker vocabulary).

a. every marker-line kind the materializer can emit is one the parser reacts to
b. byte <-> kind is a bijection: parse_byte maps each byte to the variant whose discriminant is that byte, covering
   all variants; to_byte is the discriminant cast
c. materialization and the snapshot-side comparison compute hunks with the same function (files::merge_hunks)
d. the marker length used to parse is threaded from the materializer's choice
"""
from jjv.lib import CallSite, name_matches, op_place, show, strip, term_calls, walk

C = "jj_lib::conflicts::"
ADT = C + "ConflictMarkerLineChar"
WRITERS = [C + "materialize_merge_result", C + "materialize_merge_result_to_bytes"]
PARSERS = [C + "parse_conflict"]


def variants_used(F, roots, crates=("jj_lib",)):
    """variants of ConflictMarkerLineChar constructed (incl. as comparands) or matched in the cone of `roots`"""
    cone = F.cg.cone(roots, crates=crates)
    # parse_byte builds every variant by definition: it says nothing about what is emitted or handled
    cone = {r for r in cone if r.startswith(C) and r != ADT + "::parse_byte"}
    built, matched = {}, {}
    for r in cone:
        for row in F.q("SELECT fn, variant FROM aggregate WHERE root=? AND adt=?", (r, ADT)):
            built.setdefault(row["variant"], set()).add(r)
        for fid in F.family(r):
            b = F.body(fid)
            for bb, t in b.switches():
                ds = b.discr_source(bb)
                if ds and ds[1] == ADT:
                    listed = {ds[2][int(v)] for v, _ in t["vals"] if int(v) in ds[2]}
                    for v in listed:
                        matched.setdefault(v, set()).add(r)
    return cone, built, matched


def run(ctx):
    F = ctx.F
    ctx.explanation = (
        "Enum-variant table agreement: the ConflictMarkerLineChar variants constructed in the cone of "
        "materialize_merge_result(_to_bytes) must all be variants the cone of parse_conflict compares against or "
        "matches; ConflictMarkerLineChar::parse_byte is read as a table byte->variant from its SwitchInt and must be "
        "the inverse of the enum's explicit discriminants (to_byte is the cast), covering every variant; the writer "
        "and update_from_content both compute hunks through files::merge_hunks; parse_conflict receives the marker "
        "length chosen by choose_materialized_conflict_marker_len via the file state.")
    ctx.clauses = ["writer marker kinds ⊆ parser marker kinds", "byte/kind bijection", "same hunk function on both sides",
                   "marker length plumbing"]
    ctx.not_decided = ["EOL spreading", "marker-length escalation arithmetic", "content containing look-alike lines",
                       "that parse∘materialize is the identity on contents"]
    variants = [r["name"] for r in F.q("SELECT name FROM adt_variant WHERE adt=?", (ADT,))]
    if not ctx.anchor("C05", "variants of ConflictMarkerLineChar", variants, 6):
        return
    wc, wbuilt, _ = variants_used(F, WRITERS)
    pc, pbuilt, pmatched = variants_used(F, PARSERS)
    ctx.fn_seen(*wc, *pc)
    ctx.anchor("C05.a", "marker kinds emitted by the materializer", wbuilt, 6)
    known = set(pbuilt) | set(pmatched)
    ctx.anchor("C05.a", "marker kinds the parser reacts to", known, 6)
    for v in sorted(wbuilt):
        ok = v in known
        ctx.ob("C05.a/emitted-kind-is-parsed", v, ok,
               f"emitted by {sorted(x.split('::')[-1] for x in wbuilt[v])[:3]}, recognised by "
               f"{sorted(x.split('::')[-1] for x in (pbuilt.get(v, set()) | pmatched.get(v, set())))[:3]}" if ok else
               f"the materializer writes `{v}` marker lines that no parser arm recognises")
    rule_b(ctx, variants)
    rule_c(ctx)


def rule_b(ctx, variants):
    F = ctx.F
    fid = ADT + "::parse_byte"
    b = F.body(fid)
    if not ctx.anchor("C05.b", fid, 1 if b else 0, 1):
        return
    ctx.fn_seen(fid)
    discr = {r["name"]: int(r["discr"]) for r in F.q("SELECT name, discr FROM adt_variant WHERE adt=?", (ADT,))}
    table = {}
    for bb, t in b.switches():
        p = op_place(t["o"])
        if p is None or b.locals[p[0]] != "u8":
            continue
        for v, tgt in t["vals"]:
            x, seen = tgt, set()
            while x is not None and x not in seen:
                seen.add(x)
                vs = [s["r"]["v"] for s in b.blocks[x]["s"] if s["r"]["k"] == "agg" and s["r"].get("adt") == ADT]
                if vs:
                    table[int(v)] = vs[0]
                    break
                tt = b.blocks[x]["t"]
                x = tt.get("t") if tt["k"] == "goto" else None
    ctx.anchor("C05.b", "parse_byte table entries", table, 6)
    for byte, v in sorted(table.items()):
        ok = discr.get(v) == byte
        ctx.ob("C05.b/byte-kind-bijection", v, ok, f"byte {chr(byte)!r} <-> {v}" if ok else
               f"parse_byte maps {chr(byte)!r} to {v} but {v} is written as {chr(discr.get(v, 63))!r}")
    missing = sorted(set(variants) - set(table.values()))
    ctx.ob("C05.b/all-kinds-parseable", ADT, not missing, "every variant has a byte in parse_byte" if not missing else
           f"variants never produced by parse_byte (their marker lines are read as content): {missing}")
    dup = len(set(table.values())) != len(table)
    ctx.ob("C05.b/no-two-bytes-one-kind", ADT, not dup, "injective")
    tb = F.body(ADT + "::to_byte")
    if ctx.anchor("C05.b", "to_byte", 1 if tb else 0, 1):
        casts = [s for blk in tb.blocks for s in blk["s"] if s["r"]["k"] in ("cast", "discr")]
        calls = [c for c in tb.calls if not c.cleanup]
        ctx.ob("C05.b/to-byte-is-discriminant", ADT + "::to_byte", bool(casts) and not calls,
               "`self as u8`" if casts and not calls else "to_byte is no longer the plain discriminant cast")


def rule_c(ctx):
    F = ctx.F
    MH = "jj_lib::files::merge_hunks"
    wcone = F.cg.cone(WRITERS, crates=("jj_lib",))
    ucone = F.cg.cone([C + "update_from_content"], crates=("jj_lib",))
    ctx.ob("C05.c/same-hunk-function", MH, MH in wcone and MH in ucone,
           "materialize_merge_result* and update_from_content both reach files::merge_hunks" if MH in wcone and MH in ucone
           else "writer and snapshot side no longer compute hunks with the same function")
    # marker length: parse_conflict's expected length argument at update_from_content comes from its parameter
    for b in F.family_bodies(C + "update_from_content"):
        cs = [c for c in b.calls if not c.cleanup and (c.res or "") == C + "parse_conflict"]
        if not cs:
            continue
        ctx.fn_seen(b.id)
        sl = F.slicer(b.id)
        for c in cs:
            t = sl.call_arg(c, 2)
            from jjv.lib import term_leaves
            names = {l[2] for l in term_leaves(t) if l[0] == "param"}
            ok = "conflict_marker_len" in names
            ctx.ob("C05.d/parse-uses-recorded-marker-len", C + "update_from_content", ok,
                   f"parse_conflict(.., {show(t)[:80]})" if ok else
                   f"parse_conflict is not given the recorded marker length: {show(t)[:120]}", where=c.where())
