"""C11  Rewrites leave no orphans and references follow (bookkeeping on every rewrite path).

a. DetachedCommitBuilder::write: every Ok return passes add_head(?), set_predecessors and -- when the builder
   rewrites a commit -- set_rewritten_commit(rewrite_source.id(), new.id())
b. for_rewrite_from changes only {predecessors, committer, author.*} of the cloned commit: change id,
   description, parents, tree and labels are preserved; predecessors/rewrite_source record the source
c. transform_commits updates references before returning Ok; bookmarks/working copies before heads;
   parent_mapping is cleared only after the descendants were transformed successfully
d. who may mutate MutableRepo.parent_mapping
e. a view with pending rewrites cannot be persisted
f. bookmarks are deleted only when requested and the commit was abandoned
"""
from jjv.lib import (PathExplorer, bodies_with, body_accesses, bool_edges, check_order, find_ok_nodes, name_matches,
                     norm, ok_exit_nodes, place_has_field, show, strip, term_calls, term_leaves)

MR = "jj_lib::repo::MutableRepo::"
DCB = "jj_lib::commit_builder::DetachedCommitBuilder::"
BC = "jj_lib::backend::Commit"


def run(ctx):
    ctx.explanation = (
        "Must-pass-through and who-may-write rules over MIR: every Ok return of DetachedCommitBuilder::write passes "
        "add_head (?-checked), set_predecessors and, on the rewrite_source=Some edge, set_rewritten_commit with the "
        "source id and the new id; for_rewrite_from writes only predecessors/committer/author.* of the cloned commit "
        "and records the source as predecessor; transform_commits returns Ok only after update_rewritten_references "
        "(bookmarks and working copies before heads); parent_mapping is cleared only after a successful descendant "
        "transform and is mutated only by the rewrite-recording API; Transaction::write persists only when "
        "has_rewrites() is false; update_local_bookmarks deletes only under delete_abandoned_bookmarks && Abandoned.")
    ctx.clauses = ["rewrite bookkeeping on every path of the commit builder", "rewrite preserves identity fields",
                   "references updated before heads; mapping cleared only after success",
                   "who may mutate the rewrite mapping", "no persist with pending rewrites",
                   "bookmark deletion only when requested"]
    ctx.not_decided = ["the ordering algorithm of order_commits_for_rebase", "divergence accounting",
                       "that each command records the right rewrites"]
    ctx.assumptions = []
    rule_a(ctx)
    rule_b(ctx)
    rule_c(ctx)
    rule_d(ctx)
    rule_e(ctx)
    rule_f(ctx)
    rule_g(ctx)


def rule_g(ctx):
    """g. the rebase order considers every replacement target of a rewritten parent (all Rewrite variants, through
          Rewrite::new_parent_ids), like new_parents() which later resolves them
       h. when concurrent operations are merged, every removed commit of a change is recorded: commits sharing a change
          id (divergent) are accumulated, never overwritten in a map keyed by change id
       (both added after agent-seeded changes were missed)"""
    F = ctx.F
    root = MR + "order_commits_for_rebase"
    fam = F.family_bodies(root)
    if ctx.anchor("C11.g", root, fam, 2):
        ctx.fn_seen(*[b.id for b in fam])
        uses = [c for b in fam for c in b.calls if not c.cleanup and (c.res or "") == "jj_lib::repo::Rewrite::new_parent_ids"]
        narrowed = []
        for b in fam:
            for bb, t in b.switches():
                ds = b.discr_source(bb)
                if ds and ds[1] == "jj_lib::repo::Rewrite":
                    narrowed.append(b.id)
        ok = bool(uses) and not narrowed
        ctx.ob("C11.g/order-follows-all-replacement-targets", root, ok,
               "dependencies on replacement targets come from Rewrite::new_parent_ids() (Rewritten, Divergent and Abandoned)"
               if ok else "the rebase order only follows some Rewrite variants: children of an abandoned/divergent commit can "
                          "be rebased onto a replacement that is itself still to be rebased (stale commit stays visible)")
    root = MR + "record_rewrites"
    fam = F.family_bodies(root)
    if ctx.anchor("C11.h", root, fam, 1):
        ctx.fn_seen(*[b.id for b in fam])
        bad = []
        acc = 0
        for b in fam:
            for c in b.calls:
                if c.cleanup:
                    continue
                n = c.res or c.decl or ""
                if name_matches(n, "re:collections::HashMap::<.*>::insert$") and "ChangeId" in c.generics.split(",")[0]:
                    bad.append(c)
                if name_matches(n, "re:hash_map::Entry::<.*>::or_default$|or_insert_with$"):
                    acc += 1
        ctx.ob("C11.h/removed-commits-accumulated-per-change", root, not bad and acc >= 2,
               f"{acc} accumulate-per-key sites; no HashMap<ChangeId, _>::insert" if not bad and acc >= 2 else
               "removed commits are stored in a map keyed by change id with insert(): of several commits sharing a change "
               "id only one is recorded as rewritten/abandoned", where=bad[0].where() if bad else None)


def rule_a(ctx, prefix="C11.a"):
    F = ctx.F
    root = DCB + "write"
    bs = bodies_with(F, root, MR + "set_predecessors")
    if not ctx.anchor(prefix, "DetachedCommitBuilder::write body", bs, 1):
        return
    b = bs[0]
    ctx.fn_seen(b.id)
    okn, errn, other = ok_exit_nodes(F, b)
    ctx.anchor(prefix, "Ok exits of write", okn, 1)
    sl = F.slicer(b.id)
    for callee, checked in ((MR + "add_head", True), (MR + "set_predecessors", False)):
        cs = [c for c in b.calls_to(callee) if c.decl != "futures::Future::poll"]
        doms = set()
        for c in cs:
            doms |= find_ok_nodes(F, b, c) if checked else {c.bb}
        bad = None
        for x in okn + other:
            if not b.set_dominated(x, doms):
                bad = b.path_avoiding([0], [x], doms)
        ctx.ob(f"{prefix}/ok-passes", f"{root}|{callee}", bool(doms) and bad is None,
               f"every Ok return passes {callee.split('::')[-1]}{' (?-checked)' if checked else ''}" if doms and bad is None
               else f"an Ok return is reachable without {callee}: {b.show_path(bad)[-8:] if bad else ''}",
               where=cs[0].where() if cs else None)
    # rewrite_source = Some(..) edge must pass set_rewritten_commit
    srw = b.calls_to(MR + "set_rewritten_commit")
    sw = None
    for bb, t in b.switches():
        ds = b.discr_source(bb)
        if ds and ds[0] and place_has_field(ds[0], DCB[:-2], "rewrite_source"):
            sw = bb
        elif ds and ds[0] and len(ds[0]) == 1:
            # `let Some(x) = self.rewrite_source` moves the field into a temp first
            t0 = strip(sl.place(ds[0], at=bb))
            if isinstance(t0, tuple) and t0[0] == "field" and t0[3] == "rewrite_source":
                sw = bb
    ok = False
    detail = "no switch on self.rewrite_source found"
    if sw is not None and srw:
        some = b.variant_edge(sw, "Some")
        p = b.path_avoiding([some], okn + other, {c.bb for c in srw})
        dominated = all(b.set_dominated(x, {sw}) for x in okn + other)
        ok = p is None and dominated and some is not None
        detail = ("on the rewrite_source=Some edge every Ok return passes set_rewritten_commit" if ok else
                  f"an Ok return skips set_rewritten_commit although the builder rewrites a commit: "
                  f"{b.show_path(p) if p else 'Ok return not dominated by the test'}")
    ctx.ob(f"{prefix}/rewrite-recorded", root, ok, detail, where=srw[0].where() if srw else None)
    # argument roles
    wts = [c for c in b.calls_to("jj_lib::commit_builder::write_to_store") if c.decl != "futures::Future::poll"]
    for c in srw:
        a_old, a_new = sl.call_arg(c, 1), sl.call_arg(c, 2)
        old_ok = any(t[0] == "field" and t[3] == "rewrite_source" for t in _walk(a_old)) and \
            norm(a_old)[1] == "jj_lib::commit::Commit::id"
        new_ok = norm(a_new)[0] == "call" and norm(a_new)[1] == "jj_lib::commit::Commit::id" and \
            any(x[1] == "jj_lib::commit_builder::write_to_store" for x in term_calls(a_new))
        ctx.ob(f"{prefix}/rewrite-roles", root, old_ok and new_ok,
               f"set_rewritten_commit({show(a_old)[:90]}, {show(a_new)[:90]})" if old_ok and new_ok else
               f"set_rewritten_commit arguments are not (source id, new commit id): {show(a_old)[:120]} / {show(a_new)[:120]}",
               where=c.where())
    for c in b.calls_to(MR + "set_predecessors"):
        a_id, a_pred = sl.call_arg(c, 1), sl.call_arg(c, 2)
        id_ok = norm(a_id)[0] == "call" and norm(a_id)[1] == "jj_lib::commit::Commit::id" and \
            any(x[1] == "jj_lib::commit_builder::write_to_store" for x in term_calls(a_id))
        pred_ok = any(t[0] == "field" and t[3] == "predecessors" and t[2] == DCB[:-2] for t in _walk(a_pred))
        ctx.ob(f"{prefix}/predecessors-roles", root, id_ok and pred_ok,
               f"set_predecessors({show(a_id)[:80]}, {show(a_pred)[:80]})" if id_ok and pred_ok else
               f"set_predecessors arguments are not (new commit id, builder.predecessors): {show(a_id)[:100]} / {show(a_pred)[:100]}",
               where=c.where())


def _walk(t):
    from jjv.lib import walk
    return walk(t)


def rule_b(ctx):
    F = ctx.F
    root = DCB + "for_rewrite_from"
    b = F.body(root)
    if not ctx.anchor("C11.b", root, 1 if b else 0, 1):
        return
    ctx.fn_seen(root)
    top, author = set(), set()
    for (bb, kind, p, ln) in body_accesses(b):
        if kind not in ("write", "mut", "callret"):
            continue
        fs = [e for e in p[1:] if isinstance(e, list) and e[0] == "f" and len(e) >= 5]
        if not fs or fs[0][3] != BC:
            continue
        # only the local clone (not *through* a reference to the predecessor)
        top.add(fs[0][2])
        if fs[0][2] == "author":
            author.add(fs[1][2] if len(fs) > 1 else "*")
    allowed_top = {"predecessors", "committer", "author"}
    allowed_author = {"name", "email", "timestamp"}
    ok = top <= allowed_top and author <= allowed_author
    ctx.ob("C11.b/preserved-fields", root, ok and "predecessors" in top,
           f"fields written on the cloned commit: {sorted(top)}; author.{sorted(author)} -- change_id, description, "
           f"parents, root_tree, conflict_labels untouched" if ok else
           f"for_rewrite_from modifies identity fields of the rewritten commit: {sorted(top - allowed_top)} "
           f"author.{sorted(author - allowed_author)}")
    # the returned builder records the source
    sl = F.slicer(root)
    agg = None
    for blk in b.blocks:
        for s in blk["s"]:
            rv = s["r"]
            if rv["k"] == "agg" and rv.get("adt") == DCB[:-2]:
                agg = (blk, s)
    if not ctx.anchor("C11.b", "DetachedCommitBuilder literal in for_rewrite_from", 1 if agg else 0, 1):
        return
    bbi = b.blocks.index(agg[0])
    fields = dict(zip(agg[1]["r"]["fields"], agg[1]["r"]["o"]))
    tp = sl.operand(fields["predecessors"], at=bbi)
    ts = sl.operand(fields["rewrite_source"], at=bbi)
    tc = sl.operand(fields["commit"], at=bbi)
    pred_param = [l for l in term_leaves(tp) if l[0] == "param"]
    okp = any(x[1] == "jj_lib::commit::Commit::id" for x in term_calls(tp)) and \
        all(l[2] == "predecessor" for l in pred_param) and bool(pred_param)
    oks = all(l[2] == "predecessor" for l in term_leaves(ts) if l[0] == "param") and \
        any(l[0] == "param" for l in term_leaves(ts))
    okc = any(x[1] == "jj_lib::commit::Commit::store_commit" for x in term_calls(tc))
    ctx.ob("C11.b/records-predecessor", root, okp and oks and okc,
           f"predecessors={show(tp)[:80]}; rewrite_source={show(ts)[:60]}; commit=clone of predecessor.store_commit()"
           if okp and oks and okc else
           f"builder does not record its source: predecessors={show(tp)[:100]} rewrite_source={show(ts)[:80]} "
           f"commit={show(tc)[:80]}")


def rule_c(ctx):
    F = ctx.F
    root = MR + "transform_commits"
    for b in bodies_with(F, root, MR + "update_rewritten_references"):
        ctx.fn_seen(b.id)
        okn, errn, other = ok_exit_nodes(F, b)
        cs = [c for c in b.calls_to(MR + "update_rewritten_references") if c.decl != "futures::Future::poll"]
        doms = set()
        for c in cs:
            doms |= find_ok_nodes(F, b, c)
        good = bool(doms) and bool(okn) and all(b.set_dominated(x, doms) for x in okn + other)
        ctx.ob("C11.c/references-updated-before-ok", root, good,
               "transform_commits returns Ok only after update_rewritten_references()?" if good else
               "transform_commits can return Ok without updating bookmarks/working copies/heads")
    check_order(ctx, "C11.c/refs-before-heads", MR + "update_rewritten_references", MR + "update_all_references",
                MR + "update_heads")
    check_order(ctx, "C11.c/bookmarks-then-wc", MR + "update_all_references", MR + "update_local_bookmarks",
                MR + "update_wc_commits")
    # parent_mapping.clear() only after the transform succeeded
    for root, transform in ((MR + "rebase_descendants_with_options", MR + "transform_descendants_with_options"),
                            (MR + "reparent_descendants", MR + "transform_descendants")):
        found = False
        for b in F.family_bodies(root):
            sl = F.slicer(b.id)
            clears = [c for c in b.calls if not c.cleanup and name_matches(c.res or c.decl, "re:HashMap.*::clear$")
                      and any(t[0] == "field" and t[3] == "parent_mapping" for t in _walk(sl.call_arg(c, 0)))]
            if not clears:
                continue
            found = True
            ctx.fn_seen(b.id)
            ts = [c for c in b.calls_to(transform) if c.decl != "futures::Future::poll"]
            doms = set()
            for t in ts:
                doms |= find_ok_nodes(F, b, t)
            for c in clears:
                ok = bool(doms) and b.set_dominated(c.bb, doms)
                ctx.ob("C11.c/mapping-cleared-after-success", root, ok,
                       f"parent_mapping.clear() only after {transform.split('::')[-1]}()? succeeded" if ok else
                       "the rewrite mapping is cleared although descendants were not (successfully) rebased",
                       where=c.where())
        ctx.anchor("C11.c", f"{root}: parent_mapping.clear()", 1 if found else 0, 1)


def rule_d(ctx):
    F = ctx.F
    allowed = {MR + "set_rewritten_commit", MR + "set_divergent_rewrite", MR + "record_abandoned_commit_with_parents",
               MR + "rebase_descendants_with_options", MR + "reparent_descendants", MR + "new"}
    rows = F.q("SELECT DISTINCT fn FROM field_access WHERE adt='jj_lib::repo::MutableRepo' AND field='parent_mapping'")
    n = 0
    for r in rows:
        b = F.body(r["fn"])
        muts = [(bb, kind, p, ln) for (bb, kind, p, ln) in body_accesses(b)
                if kind in ("mut", "write", "callret", "move") and place_has_field(p, "jj_lib::repo::MutableRepo", "parent_mapping")]
        if not muts:
            continue
        n += 1
        ok = b.root in allowed
        ctx.ob("C11.d/who-mutates-parent-mapping", b.root, ok, f"{len(muts)} mutable access(es)" if ok else
               "MutableRepo.parent_mapping is mutated outside the rewrite-recording API", where=f"{b.file}:{muts[0][3]}")
    ctx.anchor("C11.d", "mutators of parent_mapping", n, 5)


def rule_e(ctx):
    F = ctx.F
    root = "jj_lib::transaction::Transaction::write"
    WV = "jj_lib::op_store::OpStore::write_view"
    for b in bodies_with(F, root, WV):
        ctx.fn_seen(b.id)
        for w in b.calls_to(WV):
            ok = False
            for t in b.calls_to(MR + "has_rewrites"):
                trues, falses = bool_edges(F, b, t)
                if falses and b.set_dominated(w.bb, set(falses)):
                    ok = True
            ctx.ob("C11.e/no-persist-with-pending-rewrites", root, ok,
                   "write_view only on the has_rewrites()==false edge" if ok else
                   "a view can be persisted while descendants of rewritten commits are not rebased", where=w.where())


def rule_f(ctx):
    F = ctx.F
    root = MR + "update_local_bookmarks"
    bs = bodies_with(F, root, "jj_lib::op_store::RefTarget::absent")
    ctx.anchor("C11.f", "RefTarget::absent in update_local_bookmarks", bs, 1)
    for b in bs:
        ctx.fn_seen(b.id)
        # waypoints: true edge of the switch on options.delete_abandoned_bookmarks, Abandoned edge of the Rewrite match
        wp_flag, wp_ab = set(), set()
        sl = F.slicer(b.id)
        for bb, t in b.switches():
            from jjv.lib import op_place
            p = op_place(t["o"])
            if p is not None and any(isinstance(e, list) and e[0] == "f" and e[2] == "delete_abandoned_bookmarks" for e in p[1:]):
                wp_flag.add(b.edge_node(bb, "else"))
            elif p is not None and len(p) == 1:
                term = strip(sl.place(p, at=bb))
                if isinstance(term, tuple) and term[0] == "field" and term[3] == "delete_abandoned_bookmarks":
                    wp_flag.add(b.edge_node(bb, "else"))
            ds = b.discr_source(bb)
            if ds and ds[1] == "jj_lib::repo::Rewrite":
                e = b.variant_edge(bb, "Abandoned")
                if e is not None:
                    wp_ab.add(e)
        ctx.anchor("C11.f", "test of options.delete_abandoned_bookmarks", wp_flag, 1)
        ctx.anchor("C11.f", "match on Rewrite::Abandoned", wp_ab, 1)
        targets = [c.bb for c in b.calls_to("jj_lib::op_store::RefTarget::absent")]
        px = PathExplorer(F, b, origins_of_interest=set())
        res = px.run([0], targets, waypoints=wp_flag | wp_ab)
        bad = [r for r in res if not (any(("W", w) in r[1] for w in wp_flag) and any(("W", w) in r[1] for w in wp_ab))]
        ctx.ob("C11.f/delete-only-when-requested-and-abandoned", root, bool(res) and not bad,
               f"{len(res)} feasible path class(es) to RefTarget::absent(), all through delete_abandoned_bookmarks==true "
               f"and Rewrite::Abandoned" if res and not bad else
               f"a bookmark can be deleted without the option or for a non-abandoned rewrite: "
               f"{b.show_path(bad[0][2])[-8:] if bad else 'unreachable'}", sites=max(len(res), 1))
