"""C43  Per-repo configuration cannot be injected by a copied repository (path confinement + id validation).

a. every config path handed out derives from the user's root config dir joined with a config id (or from helpers
   that are themselves summarised that way) and never from repository-controlled data (repo dir, metadata path,
   legacy config name)
b. the config id read from the repository reaches a path only after the length/hex validation passed
c. a detected copy gets a freshly generated id and a copy of the old content
d. the config-id file is written only through atomic_write
e. CLI side: repo/workspace config layers are loaded only from the path the secure-config loader returned; the root
   handed to the loader is ConfigEnv.root_config_dir (+ kind), a field written only from the user's config dir
"""
from jjv.lib import (alts, bodies_with, body_accesses, bool_edges, name_matches, norm, op_place, place_has_field, show,
                     strip, term_calls, term_fields, term_leaves, walk)

S = "jj_lib::secure_config::"
SC = S + "SecureConfig"
LOADED = S + "LoadedSecureConfig"
META = "jj_lib::protos::secure_config::ConfigMetadata"
GEN = (SC + "::generate_config", SC + "::generate_initial_config")


def run(ctx):
    ctx.explanation = (
        "Taint-style provenance rules on lib/src/secure_config.rs: every `config_file` stored in a LoadedSecureConfig or "
        "in the cache has provenance root_config_dir.join(<id>).join(CONFIG_FILE) (directly, through the config_dir "
        "parameter of handle_metadata_path whose only call site passes root_config_dir.join(&config_id), or through "
        "generate_config*, whose return value is summarised the same way) and no sub-term reads SecureConfig.repo_dir, "
        "ConfigMetadata.path or the legacy file name; the id read with fs::read_to_string reaches Path::join / the "
        "generators only past the false edge of `len != 2*CONFIG_ID_BYTES || !all(is_ascii_hexdigit)`; on the copied-repo "
        "edge generate_config receives generate_config_id(rng) and the old file's content; the id file is written only by "
        "atomic_write in generate_config.")
    ctx.clauses = ["config path confined to the user's config root", "config id validated before use",
                   "copied repository gets its own config", "id file written atomically"]
    ctx.not_decided = ["the copy/move heuristic (temp-file visibility test) itself", "permissions of the config directory"]
    rule_a(ctx)
    rule_b(ctx)
    rule_c(ctx)
    rule_d(ctx)
    rule_cli(ctx)


def _pruned(t):
    """sub-terms that can influence the resulting *path*: the id read from the repository is a sanitized source
    (rule b) so its own provenance is not followed; of the summarised generators only (root_config_dir, config_id)
    matter (content and metadata arguments do not affect the returned path)"""
    from jjv.lib import children
    stack, seen = [t], set()
    while stack:
        x = stack.pop()
        if not isinstance(x, tuple) or id(x) in seen:
            continue
        seen.add(id(x))
        yield x
        if x[0] == "call" and x[1] == "std::fs::read_to_string":
            continue
        if x[0] == "call" and x[1] in GEN:
            stack.extend(x[2][1:3])
            continue
        if x[0] == "call" and name_matches(x[1], ("re:::context$", "re:::with_context$", "re:::map_err$")):
            stack.extend(x[2][:1])  # error decoration: only the value flows on
            continue
        stack.extend(children(x))


def _tainted(t):
    bad = []
    for w in _pruned(t):
        if w[0] == "field" and ((w[2] == SC and w[3] in ("repo_dir", "legacy_config_name", "config_id_name")) or
                                (w[2] == META and w[3] == "path")):
            bad.append((w[2].split("::")[-1], w[3]))
        if w[0] == "call" and name_matches(w[1], ("re:secure_config::metadata_path$", "re:file_util::path_from_bytes$")):
            bad.append(w[1])
    return bad


def _confined(t):
    """does the path term come from the config root / the summarised helpers / the cache?"""
    leaves = term_leaves(t)
    params = {l[2] for l in leaves if l[0] == "param"}
    calls = {x[1] for x in term_calls(t)}
    if calls & set(GEN):
        return True
    if any(w[0] == "field" and w[2] == SC and w[3] == "cache" for w in walk(t)):
        return True
    if "root_config_dir" in params or "config_dir" in params:
        return any(name_matches(c, "re:Path.*::join$") for c in calls)
    return False


def rule_a(ctx):
    F = ctx.F
    n = 0
    for r in F.q("SELECT DISTINCT fn FROM aggregate WHERE adt=?", (LOADED,)):
        b = F.body(r["fn"])
        if not b.id.startswith(S):
            continue
        ctx.fn_seen(b.id)
        sl = F.slicer(b.id, with_mutators=True)
        k = 0
        for i, blk in enumerate(b.blocks):
            for s in blk["s"]:
                rv = s["r"]
                if rv["k"] != "agg" or rv.get("adt") != LOADED:
                    continue
                t = sl.operand(dict(zip(rv["fields"], rv["o"]))["config_file"], at=i)
                for a in alts(t):
                    st = strip(a)
                    if isinstance(st, tuple) and st[0] == "agg" and st[2] == "None":
                        continue
                    if isinstance(st, tuple) and st[0] == "call" and name_matches(st[1], "re:Default>::default$|Default::default$"):
                        continue
                    n += 1
                    taint = _tainted(a)
                    ok = not taint and _confined(a)
                    ctx.ob("C43.a/config-path-confined", f"{b.root}#{k}", ok,
                           f"config_file = {show(a)[:140]}" if ok else
                           (f"the config path depends on repository-controlled data {taint[:2]}: {show(a)[:160]}" if taint else
                            f"the config path does not derive from the user's config root: {show(a)[:160]}"),
                           where=f"{b.file}:{s.get('ln')}")
                    k += 1
    ctx.anchor("C43.a", "LoadedSecureConfig.config_file values", n, 7)
    # field writes `loaded.config_file = ..` and cache writes
    for fid in F.find_fns("re:^jj_lib::secure_config::SecureConfig::(load_config|maybe_load_config)$"):
        b = F.body(fid)
        sl = F.slicer(fid, with_mutators=True)
        for i, blk in enumerate(b.blocks):
            for s in blk["s"]:
                if place_has_field(s["l"], LOADED, "config_file"):
                    t = sl._rvalue(s["r"], i)
                    taint = _tainted(t)
                    ok = not taint and _confined(t)
                    ctx.ob("C43.a/config-path-confined", f"{fid}|assign", ok, f"config_file := {show(t)[:120]}" if ok else
                           f"assigned config path is not confined: {show(t)[:160]}")
    # summaries: generate_config returns root.join(id).join(CONFIG_FILE); handle_metadata_path's config_dir argument
    b = F.body(GEN[0])
    if ctx.anchor("C43.a", GEN[0], 1 if b else 0, 1):
        sl = F.slicer(b.id)
        from jjv.lib import ok_exit_nodes
        okn, _, _ = ok_exit_nodes(F, b)
        good = False
        for x in okn:
            for s in b.blocks[x]["s"]:
                rv = s["r"]
                if rv["k"] == "agg" and rv.get("adt") == "std::result::Result" and rv.get("v") == "Ok":
                    t = sl.operand(rv["o"][0], at=x)
                    n_ = norm(t)
                    params = {l[2] for l in term_leaves(t) if l[0] == "param"}
                    consts = {l[1] for l in term_leaves(t) if l[0] == "const"}
                    good = params == {"root_config_dir", "config_id"} and "config.toml" in consts and not _tainted(t)
                    ctx.info["generate_config_returns"] = show(t)[:160]
        ctx.ob("C43.a/generate_config-summary", GEN[0], good, "returns root_config_dir.join(config_id).join(CONFIG_FILE)" if good
               else "generate_config no longer returns a path below the config root")
    b = F.body(GEN[1])
    if ctx.anchor("C43.a", GEN[1], 1 if b else 0, 1):
        sl = F.slicer(b.id)
        cs = [c for c in b.calls if not c.cleanup and (c.res or "") == GEN[0]]
        ok = bool(cs) and all(strip(sl.call_arg(c, 1)) == ("param", 2, "root_config_dir") or
                              {l[2] for l in term_leaves(sl.call_arg(c, 1)) if l[0] == "param"} == {"root_config_dir"} for c in cs)
        ctx.ob("C43.a/generate_initial_config-summary", GEN[1], ok, "forwards root_config_dir to generate_config")
    sites = [c for c in F.all_calls_to(SC + "::handle_metadata_path")]
    ctx.anchor("C43.a", "call sites of handle_metadata_path", sites, 1)
    for c in sites:
        sl = F.slicer(c.body.id)
        t = sl.call_arg(c, 3)
        params = {l[2] for l in term_leaves(t) if l[0] == "param"}
        ok = "root_config_dir" in params and any(name_matches(x[1], "re:Path.*::join$") for x in term_calls(t)) and not _tainted(t)
        ctx.ob("C43.a/config_dir-argument", c.body.root, ok, f"config_dir = {show(t)[:120]}" if ok else
               f"handle_metadata_path is given a directory outside the config root: {show(t)[:140]}", where=c.where())


def rule_b(ctx):
    F = ctx.F
    fid = SC + "::maybe_load_config"
    b = F.body(fid)
    if not ctx.anchor("C43.b", fid, 1 if b else 0, 1):
        return
    ctx.fn_seen(fid)
    sl = F.slicer(fid)
    reads = [c for c in b.calls if not c.cleanup and (c.res or "") == "std::fs::read_to_string"]
    ctx.anchor("C43.b", "fs::read_to_string(config id)", reads, 1)

    def from_read(t):
        return any(x[3] and x[3][0] == b.id and any(x[3][1] == r.bb for r in reads) for x in term_calls(t))
    sinks = []
    for c in b.calls:
        if c.cleanup:
            continue
        name = c.res or c.decl or ""
        if name_matches(name, ("re:Path.*::join$", SC + "::generate_initial_config", SC + "::handle_metadata_path",
                               SC + "::generate_config")):
            if any(from_read(sl.call_arg(c, k)) for k in range(len(c.args))):
                sinks.append(c)
    ctx.anchor("C43.b", "uses of the id read from the repository", sinks, 2)
    invalid_edges = set()
    for bb, t in b.switches():
        p = op_place(t["o"])
        if p is None:
            continue
        term = strip(sl.place(p, at=bb))
        if isinstance(term, tuple) and term[0] == "bin" and term[1] in ("Ne", "Eq") and from_read(term):
            invalid_edges.add(b.edge_node(bb, "else") if term[1] == "Ne" else b.edge_node(bb, 0))
    alls = [c for c in b.calls if not c.cleanup and c.decl == "std::iter::Iterator::all" and from_read(sl.call_arg(c, 0))]
    for a in alls:
        trues, falses = bool_edges(F, b, a)
        invalid_edges |= set(falses)
    ctx.ob("C43.b/validation-present", fid, bool(invalid_edges) and bool(alls),
           "length comparison and all(is_ascii_hexdigit) on the id read from the repository" if invalid_edges and alls else
           "the config id read from the repository is not validated (length and hex digits)")
    # hex predicate
    hexok = False
    for a in alls:
        pred = sl.call_arg(a, 1)
        for x in term_calls(pred):
            if x[1].startswith("closure:"):
                cb = F.body(x[1][8:])
                if cb and any(name_matches(y.res or y.decl or "", "re:is_ascii_hexdigit$") for y in cb.calls if not y.cleanup):
                    hexok = True
    ctx.ob("C43.b/validation-is-hex", fid, hexok, "predicate is char::is_ascii_hexdigit" if hexok else
           "the character predicate is not is_ascii_hexdigit (separators like '/' or '.' could pass)")
    for s in sinks:
        p = b.path_avoiding([e for e in invalid_edges if e is not None], [s.bb])
        dominated = all(b.set_dominated(s.bb, {a.bb}) for a in alls) if alls else False
        ctx.ob("C43.b/sanitized-before-use", f"{fid}|{(s.res or s.decl).split('::')[-1]}", p is None and dominated,
               "reached only after the id passed validation" if p is None and dominated else
               "the unvalidated config id reaches a path construction", where=s.where())


def rule_c(ctx):
    F = ctx.F
    fid = SC + "::handle_metadata_path"
    b = F.body(fid)
    if not ctx.anchor("C43.c", fid, 1 if b else 0, 1):
        return
    ctx.fn_seen(fid)
    sl = F.slicer(fid)
    gens = [c for c in b.calls if not c.cleanup and (c.res or "") == GEN[0]]
    ctx.anchor("C43.c", "generate_config on the copied-repository edge", gens, 1)
    for c in gens:
        tid = sl.call_arg(c, 2)
        fresh = any(x[1] == S + "generate_config_id" for x in term_calls(tid)) and \
            not any(l[0] == "param" and l[2] not in ("rng",) for l in term_leaves(tid))
        tcont = sl.call_arg(c, 3)
        copied = any(x[1] == "std::fs::read" for x in term_calls(tcont)) and \
            any(l[0] == "param" and l[2] == "config_dir" for l in term_leaves(tcont))
        ctx.ob("C43.c/copy-gets-fresh-id", fid, fresh, f"id = {show(tid)[:80]}" if fresh else
               f"a copied repository keeps sharing the original's config id: {show(tid)[:100]}", where=c.where())
        ctx.ob("C43.c/copy-gets-old-content", fid, copied, "content read from the old config file" if copied else
               f"the copy's config content does not come from the old config file: {show(tcont)[:100]}", where=c.where())


def rule_d(ctx):
    F = ctx.F
    writers = F.all_calls_to(("std::fs::write", S + "atomic_write", "re:^std::fs::File::create$"), crates=("jj_lib",))
    n = 0
    for c in writers:
        if not c.body.root.startswith(S):
            continue
        sl = F.slicer(c.body.id)
        t = sl.call_arg(c, 0)
        if (SC, "config_id_name") in term_fields(t):
            n += 1
            ok = (c.res or "") == S + "atomic_write" and c.body.root == GEN[0]
            ctx.ob("C43.d/id-file-written-atomically", f"{c.body.root}->{(c.res or c.decl).split('::')[-1]}", ok,
                   "atomic_write(repo_dir.join(config_id_name), id)" if ok else
                   "the config-id file is written non-atomically or from an unexpected place", where=c.where())
    ctx.anchor("C43.d", "writes of the config-id file", n, 1)


def rule_cli(ctx):
    F = ctx.F
    CE = "jj_cli::config::ConfigEnv"
    # 1. layers with source Repo / Workspace come from the secure loader
    n = 0
    for c in F.all_calls_to("re:^jj_lib::config::(StackedConfig|RawConfig)?.*::(load_file|load_dir)$", crates=("jj_cli",)):
        if c.cleanup:
            continue
        sl = F.slicer(c.body.id)
        src = show(sl.call_arg(c, 1))
        m = [k for k in ("Repo", "Workspace") if f"ConfigSource::{k}" in src]
        if not m:
            continue
        n += 1
        ctx.fn_seen(c.body.id)
        pth = sl.call_arg(c, 2)
        names = {x[1] for x in term_calls(pth)}
        want = f"{CE}::maybe_{m[0].lower()}_config_path"
        other = {x for x in names if x.endswith("::join") or x.endswith("::push")}
        fields = {f for (_, f) in term_fields(pth)} if callable(term_fields) else set()
        ok = want in names and not other and not ({"repo_path", "workspace_path"} & fields)
        ctx.ob("C43.e/layer-loaded-from-secure-path", f"{c.body.root}|{m[0]}", ok,
               f"load_file(ConfigSource::{m[0]}, {want.split('::')[-1]}()?)" if ok else
               f"a {m[0].lower()} config layer is loaded from {show(pth)[:120]}, not from the path returned by the secure-config "
               f"loader (a file inside the repository could be picked up)", where=c.where())
    ctx.anchor("C43.e", "load_file sites for Repo/Workspace config layers", n, 2)
    # 2. the maybe_*/.._config_path helpers return LoadedSecureConfig.config_file of load_secure_config
    for fn in ("maybe_repo_config_path", "repo_config_path", "maybe_workspace_config_path", "workspace_config_path"):
        fid = f"{CE}::{fn}"
        b = F.body(fid)
        if not ctx.anchor("C43.e", fid, [b] if b is not None else [], 1):
            continue
        ctx.fn_seen(fid)
        names = {c.res or c.decl or "" for c in b.calls if not c.cleanup}
        joins = {x for x in names if name_matches(x, "re:Path(Buf)?::(join|push)$")}
        ok = f"{CE}::load_secure_config" in names and not joins
        ctx.ob("C43.e/path-helper-delegates-to-loader", fid, ok, "returns load_secure_config(..)?.config_file" if ok else
               f"{fn} builds a path itself ({sorted(joins)}) or does not go through load_secure_config")
    # 3. load_secure_config: root = self.root_config_dir.join(kind)
    b = F.body(f"{CE}::load_secure_config")
    if ctx.anchor("C43.e", "ConfigEnv::load_secure_config", [b] if b is not None else [], 1):
        ctx.fn_seen(b.id)
        sl = F.slicer(b.id)
        n2 = 0
        for c in b.calls:
            if c.cleanup or not name_matches(c.res or c.decl or "", "re:SecureConfig::(load_config|maybe_load_config)$"):
                continue
            n2 += 1
            t = sl.call_arg(c, 2)
            flds = {f for (_, f) in term_fields(t)}
            leaves = {l[2] for l in term_leaves(t) if l[0] == "param"}
            ok = "root_config_dir" in flds and not ({"repo_path", "workspace_path", "repo_config", "workspace_config"} & flds) and \
                leaves <= {"self", "kind"}
            ctx.ob("C43.e/loader-root-is-user-config-dir", (c.res or c.decl).split("::")[-1], ok,
                   "root = self.root_config_dir.join(kind)" if ok else
                   f"the secure-config root handed to the loader is {show(t)[:120]}", where=c.where())
        ctx.anchor("C43.e", "load_config/maybe_load_config calls", n2, 2)
    # 4. writers of ConfigEnv.root_config_dir: only the constructor's struct literal, from UnresolvedConfigEnv::root_config_dir()
    from jjv.lib import field_writers
    ws = [(b.id, ln) for (b, bb, kind, p, ln) in field_writers(F, CE, "root_config_dir", kinds=("write", "mut"))]
    builders = sorted({r["fn"] for r in F.q("SELECT DISTINCT fn FROM aggregate WHERE adt=?", (CE,))
                       if " as std::clone::Clone>::clone" not in r["fn"]})
    okb = bool(builders)
    for bid in builders:
        b = F.body(bid)
        if b is None:
            continue
        ctx.fn_seen(bid)
        names = {c.res or c.decl or "" for c in b.calls if not c.cleanup}
        if "jj_cli::config::UnresolvedConfigEnv::root_config_dir" not in names:
            okb = False
    ctx.ob("C43.e/root-config-dir-writers", CE, not ws and okb,
           f"set only in the constructor(s) {[x.split('::')[-1] for x in builders]} from UnresolvedConfigEnv::root_config_dir()"
           if not ws and okb else
           f"ConfigEnv.root_config_dir is written outside its constructor ({ws[:3]}) or the constructor no longer takes it from "
           f"the user's config dir ({builders[:3]})")
    ub = F.body("jj_cli::config::UnresolvedConfigEnv::root_config_dir")
    if ctx.anchor("C43.e", "UnresolvedConfigEnv::root_config_dir", [ub] if ub is not None else [], 1):
        fl = {f for (i, k, pl, ln) in body_accesses(ub) for f in [e[2] for e in pl[1:] if isinstance(e, list) and e[0] == "f"]}
        ok = "user_config_dir" in fl and not ({"home_dir", "jj_config", "system_config_dir"} & fl)
        ctx.ob("C43.e/root-is-under-user-config-dir", ub.id, ok, "user_config_dir.join(\"jj\")" if ok else
               f"root_config_dir is derived from {sorted(fl)}")
