"""C28  Ignore rules behave like Git's (the jj-side plumbing around gix-ignore).

Pattern matching itself is delegated to gix-ignore and is not decided.  What jj adds -- and what decides which pattern
file wins and what a match means -- is structural:
a. matches_file / matches_dir pass the directory flag as const false / const true
b. the stack is searched from the deepest .gitignore outwards (self, then parent, ...) and the FIRST matching pattern
   decides; the answer is `!pattern.is_negative()`; no match in any file means not ignored
c. each file's patterns are matched against the path RELATIVE to the directory that file lives in (strip_prefix of
   that file's own prefix), case-sensitively; a file does not apply outside its directory
d. chain() gives the new node the patterns of the new file and keeps the previous stack as parent (or skips an empty
   root); the snapshot walk chains `<dir>/.gitignore` with prefix = that directory
"""
from jjv.lib import (bool_edges, name_matches, ok_exit_nodes, op_place, show, strip, term_calls, walk)

GI = "jj_lib::gitignore::GitIgnoreFile::"
ADT = "jj_lib::gitignore::GitIgnoreFile"


def run(ctx):
    F = ctx.F
    ctx.explanation = (
        "Provenance / constant / control rules on lib/src/gitignore.rs: matches_file and matches_dir call matches with the "
        "constants false / true; matches iterates iter::successors(Some(self), |f| f.parent) and returns at the first "
        "Some(match) with Not(is_negative(match.pattern)); the path handed to gix is strip_prefix(path, <that node>.prefix) "
        "converted with as_internal_file_string, Some(is_dir) and Case::Sensitive; the fall-through value is false; chain() "
        "builds the node from the new buffer with parent = previous stack; FileSnapshotter::visit_directory chains "
        "disk_dir.join(\".gitignore\") with the visited directory as prefix.")
    ctx.clauses = ["file vs directory flag", "deepest file first, first match decides, negation inverts",
                   "patterns are relative to their file's directory, case-sensitive", "stack construction"]
    ctx.not_decided = ["gix-ignore's pattern semantics versus git (negation, anchoring, globstar, escapes): delegated",
                       "global excludes file location"]
    # a
    for fn, want in (("matches_file", False), ("matches_dir", True)):
        b = F.body(GI + fn)
        if not ctx.anchor("C28.a", GI + fn, [b] if b is not None else [], 1):
            continue
        ctx.fn_seen(b.id)
        sl = F.slicer(b.id)
        cs = b.calls_to(GI + "matches")
        ok = bool(cs) and strip(sl.call_arg(cs[0], 2)) == ("const", want) and \
            [l for l in walk(sl.call_arg(cs[0], 1)) if l[0] == "param" and l[2] == "path"] != []
        ctx.ob("C28.a/directory-flag", fn, ok, f"matches(path, {str(want).lower()})" if ok else
               f"{fn} does not pass is_dir={str(want).lower()}: directory-only patterns (`name/`) are applied to the wrong kind of entry")
    b = F.body(GI + "matches")
    if not ctx.anchor("C28.b", GI + "matches", [b] if b is not None else [], 1):
        return
    ctx.fn_seen(b.id)
    sl = F.slicer(b.id)
    succ = b.calls_to("std::iter::successors")
    pm = b.calls_to("re:Search>::pattern_matching_relative_path$")
    neg = b.calls_to("re:Pattern>::is_negative$")
    sp = b.calls_to("jj_lib::repo_path::RepoPath::strip_prefix")
    if not ctx.anchor("C28.b", "successors / pattern_matching_relative_path / is_negative / strip_prefix in matches",
                      min(len(succ), len(pm), len(neg), len(sp)), 1):
        return
    # b: iteration order: starts at self and follows .parent
    t0 = strip(sl.call_arg(succ[0], 0))
    starts_self = any(l[0] == "param" and l[2] == "self" for l in walk(t0))
    follows_parent = False
    for x in term_calls(sl.call_arg(succ[0], 1)):
        if str(x[1]).startswith("closure:"):
            cb = F.body(x[1][8:])
            if cb is not None:
                from jjv.lib import body_accesses
                flds = {e[2] for (_, k, p, _) in body_accesses(cb) for e in p[1:] if isinstance(e, list) and e[0] == "f"}
                follows_parent = "parent" in flds
    ctx.ob("C28.b/deepest-file-first", GI + "matches", starts_self and follows_parent,
           "iter::successors(Some(self), |f| f.parent): nearest .gitignore first" if starts_self and follows_parent else
           "the ignore stack is not searched from the deepest file outwards")
    # first match decides: the return value on the Some(match) edge is Not(is_negative), and no loop back edge from there
    rets = [i for i, blk in enumerate(b.blocks) if not blk.get("c") and blk["t"]["k"] == "return"]
    pol = False
    for i, blk in enumerate(b.blocks):
        if blk.get("c"):
            continue
        for st in blk["s"]:
            if st["l"] == [0] or st["l"][0] == 0:
                t = sl._rvalue(st["r"], i)
                ts = strip(t)
                if isinstance(ts, tuple) and ts[0] == "un" and ts[2] == "Not" and \
                        any(name_matches(x[1], "re:Pattern>::is_negative$") for x in term_calls(ts)):
                    pol = True
    ctx.ob("C28.b/negation-inverts", GI + "matches", pol, "return !m.pattern.is_negative()" if pol else
           "the result of a match is not the inverse of the pattern's negation flag (a `!pattern` would ignore the file)")
    first = False
    if neg and rets:
        # after is_negative the function returns without visiting another file (no path back to the successors' next())
        nexts = [c.bb for c in b.calls if not c.cleanup and name_matches(c.res or c.decl or "", "re:Successors<T, F>.*::next$|Iterator::next$")]
        first = not any(n in b.after(neg[0].bb) for n in nexts)
    ctx.ob("C28.b/first-match-decides", GI + "matches", first, "a match in a deeper file ends the search" if first else
           "after a match the search continues into outer files: an outer pattern can override an inner one")
    dflt = False
    for i, blk in enumerate(b.blocks):
        if blk.get("c"):
            continue
        for st in blk["s"]:
            if st["l"] == [0] and st["r"]["k"] == "use" and st["r"]["o"][0] == "k" and st["r"]["o"][1].get("v") is False:
                dflt = True
    ctx.ob("C28.b/no-match-means-not-ignored", GI + "matches", dflt, "falls through to `false`" if dflt else
           "the fall-through result of matches is not `false`")
    # c: relative path + case
    tp = sl.call_arg(pm[0], 1)
    names = {x[1] for x in term_calls(tp)}
    okrel = "jj_lib::repo_path::RepoPath::strip_prefix" in names and any(w[0] == "field" and w[3] == "prefix" for w in walk(tp)) and \
        any(n.endswith("as_internal_file_string") for n in names)
    ctx.ob("C28.c/path-relative-to-the-files-directory", GI + "matches", okrel,
           "pattern_matching_relative_path(path.strip_prefix(file.prefix).as_internal_file_string(), ..)" if okrel else
           f"patterns are not matched against the path relative to their own file's directory: {show(tp)[:100]}")
    same_node = False
    tm = sl.call_arg(pm[0], 0)
    # matcher and prefix come from the same stack node
    n_m = [repr(w[1]) for w in walk(tm) if w[0] == "field" and w[3] == "matcher"]
    n_p = [repr(w[1]) for w in walk(tp) if w[0] == "field" and w[3] == "prefix"]
    same_node = bool(n_m) and bool(n_p) and n_m[0] == n_p[0]
    ctx.ob("C28.c/prefix-and-patterns-of-the-same-file", GI + "matches", same_node,
           "file.matcher is applied to path relative to file.prefix" if same_node else
           "the patterns of one .gitignore are applied relative to another file's directory")
    tc = show(sl.call_arg(pm[0], 3))
    td = sl.call_arg(pm[0], 2)
    okcase = "Case::Sensitive" in tc
    okdir = any(l[0] == "param" and l[2] == "is_dir" for l in walk(td))
    ctx.ob("C28.c/case-sensitive", GI + "matches", okcase, "Case::Sensitive" if okcase else f"matching case is {tc[:40]}")
    ctx.ob("C28.a/flag-forwarded", GI + "matches", okdir, "Some(is_dir)" if okdir else "the directory flag is not forwarded to the matcher")
    # non-root relative path guard: a file does not match its own directory
    # d: chain
    cb = F.body(GI + "chain")
    if ctx.anchor("C28.d", GI + "chain", [cb] if cb is not None else [], 1):
        ctx.fn_seen(cb.id)
        csl = F.slicer(cb.id)
        okc = False
        for i, blk in enumerate(cb.blocks):
            if blk.get("c"):
                continue
            for st in blk["s"]:
                rv = st["r"]
                if rv["k"] == "agg" and rv.get("adt") == ADT:
                    f = dict(zip(rv["fields"], rv["o"]))
                    tpar, tmat, tpre = (show(csl.operand(f[k], at=i)) for k in ("parent", "matcher", "prefix"))
                    okc = ("param1:self" in tpar) and ("Search::default" in tmat or "add_patterns_buffer" in tmat) and "param2:prefix" in tpre
        adds = cb.calls_to("re:Search>::add_patterns_buffer$")
        okb = bool(adds) and any(l[0] == "param" and l[2] == "input" for l in walk(csl.call_arg(adds[0], 1)))
        ctx.ob("C28.d/chain-builds-child-node", GI + "chain", okc and okb,
               "GitIgnoreFile{parent: self (or its parent if empty), matcher: patterns(input), prefix}" if okc and okb else
               "chain() does not build {parent = previous stack, matcher = new file's patterns, prefix = its directory}")
    # the walk chains <dir>/.gitignore with prefix = dir
    LW = "jj_lib::local_working_copy::FileSnapshotter::<'_>::visit_directory"
    n = 0
    for b2 in F.family_bodies(LW):
        for c in b2.calls_to(GI + "chain_with_file"):
            n += 1
            ctx.fn_seen(b2.id)
            s2 = F.slicer(b2.id)
            tpre, tfile = s2.call_arg(c, 1), s2.call_arg(c, 2)
            okw = any(w[0] == "field" and w[3] == "dir" for w in walk(tpre)) and \
                any(w[0] == "field" and w[3] == "disk_dir" for w in walk(tfile)) and ".gitignore" in show(tfile)
            ctx.ob("C28.d/walk-chains-each-directory", b2.id, okw, "chain_with_file(&dir, disk_dir.join(\".gitignore\"))" if okw else
                   f"the directory's .gitignore is chained with prefix {show(tpre)[:40]} / file {show(tfile)[:60]}", where=c.where())
    ctx.anchor("C28.d", "chain_with_file in visit_directory", n, 1)
