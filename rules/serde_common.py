"""Shared machinery for writer/reader agreement of serialized records (C16, C17).

For a writer cone and a reader cone, build two relations from the struct
literals they contain (MIR aggregates, post macro expansion):

  W = {(P.x, D.a)}: proto field x of prost type P is given a value whose provenance reads domain field D.a
  R = {(D.a, P.x)}: domain field D.a is given a value whose provenance reads proto field P.x

Round-trip obligation for every field a of every tabled domain struct:
  there is a proto field x with (P.x, D.a) in W and (D.a, P.x) in R.
"""
from jjv.lib import name_matches, op_const, show, strip, term_calls, term_fields, walk

DERIVED_TRAITS = ("jj_lib::content_hash::ContentHash", "std::fmt::Debug", "std::clone::Clone", "std::cmp::PartialEq",
                  "std::cmp::Eq", "std::hash::Hash", "std::cmp::PartialOrd", "std::cmp::Ord", "std::default::Default",
                  "serde::Serialize")


def cone_bodies(F, roots, crates=("jj_lib",), cut=(), skip_derived=True):
    cone = F.cg.cone(roots, crates=crates, cut=cut)
    out = []
    for r in cone:
        fn = F.fns[r]
        if skip_derived and fn.get("impl_trait") in DERIVED_TRAITS:
            continue
        for fid in F.family(r):
            out.append(F.body(fid))
    return cone, out


def aggregates(body):
    for i, blk in enumerate(body.blocks):
        if blk.get("c"):
            continue
        for s in blk["s"]:
            rv = s["r"]
            if rv["k"] == "agg" and rv.get("ak") == "adt":
                yield i, s, rv


def is_default_value(t):
    t = strip(t)
    if not isinstance(t, tuple):
        return False
    if t[0] == "const":
        return t[1] in (0, "", False)
    if t[0] == "call":
        return name_matches(t[1], ("re:^<.* as std::default::Default>::default$", "std::default::Default::default",
                                   "re:^std::vec::Vec::<T>::new$", "re:^std::string::String::new$",
                                   "re:::new$")) and not t[2]
    if t[0] == "agg" and t[1] == "std::option::Option" and t[2] == "None":
        return True
    return False


def relation(F, bodies, src_is, dst_is):
    """pairs (dst_adt.field, src_adt.field) from aggregates of `dst` ADTs whose operands read `src` ADT fields.
    Also returns, per dst field, a printable sample of its operand and the set of dst fields left at a default."""
    rel = set()
    samples = {}
    unset = set()
    sites = 0
    for b in bodies:
        sl = None
        for i, s, rv in aggregates(b):
            adt = rv.get("adt")
            if not dst_is(adt):
                continue
            if sl is None:
                sl = F.slicer(b.id, with_mutators=True)
            for fname, o in zip(rv.get("fields", []), rv["o"]):
                sites += 1
                t = sl.operand(o, at=i)
                key = (adt, fname)
                fs = {(a, f) for (a, f) in term_fields(t) if src_is(a)}
                if not fs and is_default_value(t):
                    unset.add(key)
                for sf in fs:
                    rel.add((key, sf))
                if key not in samples or fs:
                    samples[key] = show(t)[:140]
        # field-wise construction `x.f = v` on a local of a dst ADT
        defs, partial = b.defs
        for l, pws in partial.items():
            for (bb, si, place, rv) in pws:
                fs_ = [e for e in place[1:] if isinstance(e, list) and e[0] == "f" and len(e) >= 5]
                if not fs_ or not dst_is(fs_[0][3]):
                    continue
                if sl is None:
                    sl = F.slicer(b.id, with_mutators=True)
                t = sl._call(rv["t"], bb) if rv["k"] == "callret" else sl._rvalue(rv, bb)
                key = (fs_[0][3], fs_[0][2])
                sites += 1
                for sf in {(a, f) for (a, f) in term_fields(t) if src_is(a)}:
                    rel.add((key, sf))
                    samples[key] = show(t)[:140]
        # mutation through `&mut x.f` handed to a call (`proto.parents.push(v)`)
        for i, blk in enumerate(b.blocks):
            if blk.get("c"):
                continue
            for st in blk["s"]:
                rv = st["r"]
                if rv["k"] != "ref" or rv["m"] != "mut" or len(st["l"]) != 1:
                    continue
                fs_ = [e for e in rv["p"][1:] if isinstance(e, list) and e[0] == "f" and len(e) >= 5]
                if not fs_ or not dst_is(fs_[0][3]):
                    continue
                tmp = st["l"][0]
                for c in b.calls:
                    if c.cleanup:
                        continue
                    idx = [k for k, a in enumerate(c.args) if a[0] in ("c", "m") and a[1] == [tmp]]
                    if not idx:
                        continue
                    if sl is None:
                        sl = F.slicer(b.id, with_mutators=True)
                    key = (fs_[0][3], fs_[0][2])
                    for k in range(len(c.args)):
                        if k in idx:
                            continue
                        t = sl.call_arg(c, k)
                        sites += 1
                        for sf in {(a, f) for (a, f) in term_fields(t) if src_is(a)}:
                            rel.add((key, sf))
                            samples[key] = show(t)[:140]
    return rel, samples, unset, sites


def struct_fields(F, adt):
    return [r["name"] for r in F.q("SELECT name FROM adt_field WHERE adt=? ORDER BY idx", (adt,))]


def check_roundtrip(ctx, rule, domain_structs, W, R, wsamples, rsamples, exempt=None):
    """every field of every domain struct has a proto field carrying it both ways"""
    F = ctx.F
    exempt = exempt or {}
    w_by_dom = {}
    for (p, d) in W:
        w_by_dom.setdefault(d, set()).add(p)
    r_by_dom = {}
    for (d, p) in R:
        r_by_dom.setdefault(d, set()).add(p)
    for adt in domain_structs:
        fields = struct_fields(F, adt)
        ctx.anchor(rule, f"fields of {adt}", fields, 1)
        for f in fields:
            d = (adt, f)
            if d in exempt:
                ctx.ob(f"{rule}/roundtrip", f"{adt.split('::')[-1]}.{f}", True, "exempt: " + exempt[d])
                continue
            ws = w_by_dom.get(d, set())
            rs = r_by_dom.get(d, set())
            both = ws & rs
            short = f"{adt.split('::')[-1]}.{f}"
            if both:
                x = sorted(both)[0]
                ctx.ob(f"{rule}/roundtrip", short, True,
                       f"written to {x[0].split('::')[-1]}.{x[1]} and read back from it")
            elif not ws:
                ctx.ob(f"{rule}/roundtrip", short, False,
                       f"the writer never stores this field (no serialized field's value reads it)")
            elif not rs:
                ctx.ob(f"{rule}/roundtrip", short, False,
                       f"the reader never restores this field from what the writer stored "
                       f"(written to {sorted(ws)}; reader builds it from {rsamples.get(d, '?')})")
            else:
                ctx.ob(f"{rule}/roundtrip", short, False,
                       f"written to {sorted(ws)} but read back from {sorted(rs)} (crossed fields)")


def check_pairwise(ctx, rule, W, R, legacy_read_only=None, write_only=None):
    """(i) everything the writer stores from a domain field is read back into that field;
    (ii) everything the reader uses to restore a field is something the writer stores from it,
    except tabled legacy (read-only) pairs."""
    legacy_read_only = legacy_read_only or {}
    write_only = write_only or {}
    sh = lambda x: f"{x[0].split('::')[-1]}.{x[1]}"
    for (p, d) in sorted(W):
        key = f"{sh(p)}<-{sh(d)}"
        if (d, p) in R:
            ctx.ob(f"{rule}/written-is-read-back", key, True, "read back into the same field")
        elif (sh(p), sh(d)) in write_only:
            ctx.ob(f"{rule}/written-is-read-back", key, True, "tabled: " + write_only[(sh(p), sh(d))])
        else:
            ctx.ob(f"{rule}/written-is-read-back", key, False,
                   f"{sh(p)} is written from {sh(d)} but the reader does not restore {sh(d)} from it")
    for (d, p) in sorted(R):
        key = f"{sh(d)}<-{sh(p)}"
        if (p, d) in W:
            continue
        if (sh(d), sh(p)) in legacy_read_only:
            ctx.ob(f"{rule}/read-is-written", key, True, "legacy read-only: " + legacy_read_only[(sh(d), sh(p))])
        else:
            ctx.ob(f"{rule}/read-is-written", key, False,
                   f"the reader restores {sh(d)} from {sh(p)}, which the writer does not store from {sh(d)}")
