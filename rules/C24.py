"""C24  Checkout writes the tree and an immediate snapshot sees no change (structural part: roles of the diff, bookkeeping).

The equality of disk contents and tree is a runtime quantity (not decided).  Structural necessary conditions:
a. TreeState::check_out updates from the tree the working copy records (self.tree) to the requested tree within the
   sparse patterns, and records the new tree only after the update succeeded
b. TreeState::update walks old_tree.diff_stream_for_file_system(new_tree, matcher) -- the variant ordered for file
   <-> directory replacements -- and materialises the AFTER side of each entry with the new tree's labels; the entry's
   BEFORE side decides what is removed
c. bookkeeping that makes the next snapshot a no-op: every processed path ends in exactly one of
   changed_file_states.push(path, state) / deleted_files.insert(path) (or the tabled submodule no-op), the state pushed for
   a written path is the one returned by write_file / write_symlink / write_conflict (taken from the written file) or a
   placeholder for skipped paths, and the collected changes are merged into file_states before update returns Ok
d. a conflict is written with materialize_merge_result_to_bytes and the marker length used is stored in the file state
"""
from jjv.lib import (bodies_with, body_accesses, find_ok_nodes, name_matches, ok_exit_nodes, place_has_field, show, strip,
                     term_calls, walk)

LW = "jj_lib::local_working_copy::"
TS = LW + "TreeState"


def params(t):
    from jjv.lib import term_leaves
    return {l[2] for l in term_leaves(t) if l[0] == "param"}


def run(ctx):
    F = ctx.F
    ctx.explanation = (
        "Role and bookkeeping rules on the MIR of TreeState::check_out / update: check_out calls update(clone of self.tree, "
        "new_tree, sparse matcher) and assigns self.tree only after the ?-checked update; update's diff is "
        "MergedTree::diff_stream_for_file_system(old_tree, new_tree, matcher) in that role order and the value materialised "
        "is the entry's `after` with new_tree.labels(); in the per-entry closure every Ok return passes a push onto "
        "changed_file_states or an insert into deleted_files (or the tabled submodule-to-submodule return), pushed states "
        "come from write_file/write_symlink/write_conflict/placeholder/for_gitsubmodule; FileStates::merge_in precedes the "
        "Ok return; the conflict marker length stored equals the one used to materialise.")
    ctx.clauses = ["roles of the checkout diff", "new tree recorded only after success", "every processed path is book-kept",
                   "conflicts written with the recorded marker length"]
    ctx.not_decided = ["that the files on disk equal the tree afterwards (runtime file-system state)",
                       "that a checkout from scratch gives the same disk state as an incremental one"]
    rule_a(ctx)
    rule_b(ctx)
    rule_c(ctx)


def rule_a(ctx):
    F = ctx.F
    root = TS + "::check_out"
    bs = bodies_with(F, root, TS + "::update")
    if not ctx.anchor("C24.a", root, bs, 1):
        return
    b = bs[0]
    ctx.fn_seen(b.id)
    sl = F.slicer(b.id)
    up = [c for c in b.calls_to(TS + "::update") if c.decl != "futures::Future::poll"][0]
    t_old, t_new, t_m = sl.call_arg(up, 1), sl.call_arg(up, 2), sl.call_arg(up, 3)
    ok_old = any(w[0] == "field" and w[3] == "tree" for w in walk(t_old)) and "new_tree" not in params(t_old)
    ok_new = params(t_new) == {"new_tree"}
    ok_m = any(x[1] == TS + "::sparse_matcher" for x in term_calls(t_m))
    ctx.ob("C24.a/update-roles", root, ok_old and ok_new and ok_m,
           "update(old = self.tree, new = new_tree, self.sparse_matcher())" if ok_old and ok_new and ok_m else
           f"check_out does not update from the recorded tree to the requested tree within the sparse patterns "
           f"(old ok={ok_old}, new ok={ok_new}, matcher ok={ok_m})", where=up.where())
    # self.tree = new_tree only after update succeeded
    oks = set(find_ok_nodes(F, b, up))
    writes = [(bb, ln) for (bb, k, p, ln) in body_accesses(b) if k == "write" and place_has_field(p, TS, "tree")]
    okw = bool(writes) and bool(oks) and all(b.set_dominated(bb, oks) for bb, _ in writes)
    ctx.ob("C24.a/tree-recorded-after-success", root, okw, "self.tree = new_tree only after update(..)? returned Ok" if okw else
           "the working copy records the new tree although the update may have failed (the next snapshot would then record "
           "the half-updated disk as changes against the wrong tree)")
    for bb, _ in writes:
        pass


def rule_b(ctx):
    F = ctx.F
    root = TS + "::update"
    DS = "jj_lib::merged_tree::MergedTree::diff_stream_for_file_system"
    bs = bodies_with(F, root, DS)
    if not ctx.anchor("C24.b", root, bs, 1):
        return
    b = bs[0]
    ctx.fn_seen(b.id)
    sl = F.slicer(b.id)
    c = b.calls_to(DS)[0]
    p0, p1, p2 = params(sl.call_arg(c, 0)), params(sl.call_arg(c, 1)), params(sl.call_arg(c, 2))
    ok = p0 == {"old_tree"} and p1 == {"new_tree"} and p2 == {"matcher"}
    ctx.ob("C24.b/diff-roles", root, ok, "old_tree.diff_stream_for_file_system(new_tree, matcher)" if ok else
           f"the checkout diff is computed as ({sorted(p0)}).diff_stream_for_file_system({sorted(p1)}, {sorted(p2)})", where=c.where())
    plain = [x for x in b.calls if not x.cleanup and (x.res or x.decl) == "jj_lib::merged_tree::MergedTree::diff_stream"]
    ctx.ob("C24.b/file-system-ordered-diff", root, not plain, "only the file-system ordered diff is used" if not plain else
           "update uses MergedTree::diff_stream: entries are not ordered for replacing a file by a directory (or the reverse)")
    # materialised value = the after side, labels of the new tree
    n = 0
    for fb in F.family_bodies(root):
        for mc in fb.calls:
            if mc.cleanup or (mc.res or mc.decl) != "jj_lib::conflicts::materialize_tree_value":
                continue
            fsl = F.slicer(fb.id)
            tv, tl = fsl.call_arg(mc, 2), fsl.call_arg(mc, 3)
            flds = {w[3] for w in walk(tv) if w[0] == "field"}
            if "before" in flds or "after" in flds:
                n += 1
                ctx.fn_seen(fb.id)
                okv = "after" in flds and "before" not in flds
                okl = any(x[1].endswith("MergedTree::labels") for x in term_calls(tl)) and "old_tree" not in show(tl)
                ctx.ob("C24.b/materialises-the-after-side", fb.id, okv and okl,
                       "materialize_tree_value(store, path, diff.after, new_tree.labels())" if okv and okl else
                       f"what is written to disk is not the entry's `after` value with the new tree's labels ({sorted(flds & {'before', 'after'})})",
                       where=mc.where())
    ctx.anchor("C24.b", "materialize_tree_value of diff entries", n, 1)


def rule_c(ctx):
    F = ctx.F
    root = TS + "::update"
    # the per-entry closure: the body with write_file and write_conflict calls
    bs = [b for b in F.family_bodies(root) if b.calls_to(TS + "::write_conflict") and b.calls_to(TS + "::write_file")]
    if not ctx.anchor("C24.c", "per-entry closure of update", bs, 1):
        return
    b = bs[0]
    ctx.fn_seen(b.id)
    sl = F.slicer(b.id)
    pushes = [c for c in b.calls if not c.cleanup and name_matches(c.res or c.decl or "", "re:^std::vec::Vec::<.*>::push$")]
    inserts = [c for c in b.calls if not c.cleanup and name_matches(c.res or c.decl or "", "re:HashSet::<.*>::insert$")]
    books = {c.bb for c in pushes + inserts}
    oks, _, _ = ok_exit_nodes(F, b)
    # tabled bypass: submodule stays a submodule (first early return, before any disk access)
    disk = [c.bb for c in b.calls if not c.cleanup and name_matches(c.res or c.decl or "", (
        "re:RepoPath::to_fs_path$", LW + "create_parent_dirs", LW + "remove_old_file", LW + "can_create_new_file"))]
    bad = None
    for x in oks:
        p = b.path_avoiding([0], [x], books)
        if p is not None and any(n_ in disk for n_ in p):
            bad = p
    ctx.ob("C24.c/every-touched-path-is-book-kept", b.id, bool(books) and bool(oks) and bad is None,
           "every Ok return that touched the disk path passes changed_file_states.push or deleted_files.insert" if books and bad is None
           else f"a path can be written/removed on disk without its file state being updated: {b.show_path(bad)[-4:] if bad else ''} "
           f"(the next snapshot re-reads or mis-reports it)")
    # pushed states: from the writers or the tabled constants
    okst = True
    srcs = set()
    for c in pushes:
        t = sl.call_arg(c, 1)
        names = {x[1] for x in term_calls(t)}
        good = {n for n in names if name_matches(n, ("re:TreeState::(write_file|write_symlink|write_conflict)$",
                                                     "re:FileState::(placeholder|for_gitsubmodule)$"))}
        srcs |= {g.split("::")[-1] for g in good}
        if not good:
            okst = False
    ctx.ob("C24.c/state-comes-from-the-written-file", b.id, okst and {"write_file", "write_conflict"} <= srcs,
           f"pushed states come from {sorted(srcs)}" if okst else "a file state pushed after a write is not the one returned by the writer")
    # merge_in before Ok in update's main body
    mb = [x for x in F.family_bodies(root) if x.calls_to("re:FileStatesMap::merge_in$")]
    if ctx.anchor("C24.c", "FileStatesMap::merge_in in update", mb, 1):
        m = mb[0]
        ctx.fn_seen(m.id)
        mc = m.calls_to("re:FileStatesMap::merge_in$")[0]
        oks2, _, _ = ok_exit_nodes(F, m)
        p = m.path_avoiding([0], list(oks2), {mc.bb}) if oks2 else [0]
        ctx.ob("C24.c/states-merged-before-ok", m.id, bool(oks2) and p is None, "file_states.merge_in(changed, deleted) precedes Ok(stats)"
               if oks2 and p is None else "update can return Ok without merging the changed file states")
    # d. conflict marker length
    wc = [c for c in b.calls_to(TS + "::write_conflict") if c.decl != "futures::Future::poll"]
    mm = b.calls_to("jj_lib::conflicts::materialize_merge_result_to_bytes")
    ch = b.calls_to("jj_lib::conflicts::choose_materialized_conflict_marker_len")
    okd = False
    if mm and ch:
        opt = sl.call_arg(mm[0], 2)
        uses_len = any(x[1] == "jj_lib::conflicts::choose_materialized_conflict_marker_len" for x in term_calls(opt))
        stored = False
        for i, blk in enumerate(b.blocks):
            if blk.get("c"):
                continue
            for st in blk["s"]:
                rv = st["r"]
                if rv["k"] == "agg" and str(rv.get("adt", "")).endswith("MaterializedConflictData"):
                    t = sl._rvalue(rv, i)
                    stored = any(x[1] == "jj_lib::conflicts::choose_materialized_conflict_marker_len" for x in term_calls(t))
        okd = uses_len and stored
    ctx.ob("C24.d/marker-length-recorded", b.id, okd,
           "the marker length chosen for materialisation is stored in the file state" if okd else
           "the conflict is written with one marker length and a different one (or none) is recorded for parsing it back")
