"""C07  Tree merges are the path-wise merge of their inputs (structural part of the scheduler around the merges).

What a file-content merge or a trivial merge returns is value-level (C02/C04, not decided).  The tree merger itself is
a scheduler over paths, and "at every path, the same value as merging that path's entries on their own" needs:
a. every entry of every visited directory is classified exactly once: trivially resolved entries go to the result
   (absent ones are dropped), all others are scheduled -- as a subtree read when every term is a tree, as a file merge
   otherwise -- and registered as pending; nothing is skipped
b. a scheduled entry's outcome is recorded by mark_completed: resolved values into `resolved`, unresolved ones into
   `conflicts`; the directory is written only when nothing is pending
c. trivial resolution first, then content merge, and a failed content merge returns the input terms unchanged (the
   conflict is kept, never half-resolved)
d. all path-level trivial resolutions use the store's same-change option (one rule for the whole tree)
"""
from jjv.lib import (bodies_with, bool_edges, find_ok_nodes, name_matches, ok_exit_nodes, show, strip, term_calls, walk)

TM = "jj_lib::tree_merge::"
MERGER = TM + "TreeMerger::"


def names(b):
    return {c.res or c.decl or "" for c in b.calls if not c.cleanup}


def run(ctx):
    F = ctx.F
    ctx.explanation = (
        "Must-handle-every-entry rules on the MIR of tree_merge.rs: in TreeMerger::process_tree each entry of "
        "all_merged_tree_entries reaches a push onto `resolved` (or is an absent trivial result) or a push onto "
        "`non_trivial`; each non-trivial entry reaches pending_lookup.insert and enqueue_tree_read (on the is_tree edge) or "
        "enqueue_file_merge; MergedTreeInput::mark_completed removes the pending entry and stores the value in `resolved` "
        "or `conflicts`; the directory is written on the pending_lookup.is_empty() edge; resolve_file_values tries "
        "resolve_trivial before try_resolve_file_values and falls back to the unmodified terms; the same_change argument "
        "of every path-level resolve_trivial derives from Store::merge_options().")
    ctx.clauses = ["no entry is skipped", "outcomes are recorded; a directory is written when complete",
                   "trivial first, content merge second, failure keeps the conflict", "one same-change rule"]
    ctx.not_decided = ["what trivial_merge / the file content merge return (C02, C04)", "executable-bit and copy-id sub-merges"]
    rule_a(ctx)
    rule_b(ctx)
    rule_c(ctx)
    rule_d(ctx)


def rule_a(ctx):
    F = ctx.F
    root = MERGER + "process_tree"
    bs = bodies_with(F, root, "jj_lib::merged_tree::all_merged_tree_entries")
    if not ctx.anchor("C07.a", root, bs, 1):
        return
    b = bs[0]
    ctx.fn_seen(b.id)
    sl = F.slicer(b.id)
    rt = [c for c in b.calls if not c.cleanup and name_matches(c.res or c.decl or "", "re:Merge::<T>::resolve_trivial$|Merge::<std::option::Option<T>>::resolve_trivial$|::resolve_trivial$")]
    pushes = [c for c in b.calls if not c.cleanup and name_matches(c.res or c.decl or "", "re:^std::vec::Vec::<.*>::push$")]
    if not ctx.anchor("C07.a", "resolve_trivial / pushes in process_tree", min(len(rt), len(pushes) // 2), 1):
        return
    # first loop: from the resolve_trivial call, every path back to the loop head passes a push, except the edge where the
    # trivial result is an absent value (Option::cloned() == None)
    nexts = [c.bb for c in b.calls if not c.cleanup and name_matches(c.res or c.decl or "", "re:Iterator>::next$|Iterator::next$")]
    cl = [c for c in b.calls if not c.cleanup and name_matches(c.res or c.decl or "", "re:Option::<&T>::cloned$|Option::<.*>::cloned$")]
    absent_edges = set()
    for bb, t in b.switches():
        ds = b.discr_source(bb)
        if ds and ds[1] == "std::option::Option":
            term = sl.place(ds[0], at=bb)
            if any(name_matches(x[1], "re:::cloned$") for x in term_calls(term)):
                e = b.variant_edge(bb, "None")
                if e is not None:
                    absent_edges.add(e)
    first_next = [n for n in nexts if rt[0].bb in b.after(n)]
    p = b.path_avoiding([rt[0].bb], first_next, {c.bb for c in pushes} | absent_edges) if first_next else [0]
    ctx.ob("C07.a/every-entry-classified", root, p is None,
           "each entry is pushed to `resolved`, pushed to `non_trivial`, or is a trivially absent value" if p is None else
           f"an entry of the merged directory can be dropped without being resolved or scheduled: {b.show_path(p)[-4:]}")
    # second loop: every non-trivial entry is registered pending and scheduled
    ins = [c for c in b.calls if not c.cleanup and name_matches(c.res or c.decl or "", "re:HashSet::<.*>::insert$")]
    er = b.calls_to(MERGER + "enqueue_tree_read")
    ef = b.calls_to(MERGER + "enqueue_file_merge")
    it = [c for c in b.calls if not c.cleanup and name_matches(c.res or c.decl or "", "re:Merge::<std::option::Option<.*>>::is_tree$|::is_tree$")]
    ok = bool(ins) and bool(er) and bool(ef) and bool(it)
    if ok:
        tr, fa = set(), set()
        for c_ in it:
            t_, f_ = bool_edges(F, b, c_)
            tr |= set(t_)
            fa |= set(f_)
        ok = all(b.set_dominated(c.bb, tr) for c in er) and all(b.set_dominated(c.bb, fa) for c in ef)
        # from the pending insert, the next loop iteration is reached only through one of the two enqueues
        second_next = [n for n in nexts if n in b.after(ins[0].bb)]
        p2 = b.path_avoiding([ins[0].bb], second_next, {c.bb for c in er + ef}) if second_next else None
        # an entry that is not registered as pending must be recorded as a conflict right away (the TODO in the code
        # suggests this for directory/file conflicts): one full iteration passes an enqueue or a conflicts.insert
        direct = {c.bb for c in b.calls if not c.cleanup and name_matches(c.res or c.decl or "", "re:BTreeMap::<.*>::insert$")}
        p3 = None
        for n_ in second_next:
            p3 = p3 or b.path_avoiding(list(b.succ.get(n_, ())), [n_], {c.bb for c in er + ef} | direct)
        ok = ok and p2 is None and p3 is None
    ctx.ob("C07.a/every-non-trivial-entry-scheduled", root, ok,
           "pending_lookup.insert(name); all-tree terms -> enqueue_tree_read, otherwise -> enqueue_file_merge" if ok else
           "a non-trivial entry can be left unscheduled (its directory is never completed) or is scheduled as the wrong kind")
    # the no-non-trivial shortcut writes the directory from `resolved`
    ew = b.calls_to(MERGER + "enqueue_tree_write")
    ctx.ob("C07.a/complete-directory-written", root, bool(ew), "enqueue_tree_write(dir, resolved entries)" if ew else
           "a directory without non-trivial entries is not written")


def rule_b(ctx):
    F = ctx.F
    fid = TM + "MergedTreeInput::mark_completed"
    b = F.body(fid)
    if ctx.anchor("C07.b", fid, [b] if b is not None else [], 1):
        ctx.fn_seen(fid)
        ns = names(b)
        rm = any(name_matches(n, "re:HashSet::<.*>::remove$") for n in ns)
        ins = [c for c in b.calls if not c.cleanup and name_matches(c.res or c.decl or "", "re:BTreeMap::<.*>::insert$")]
        rt = [c for c in b.calls if not c.cleanup and name_matches(c.res or c.decl or "", "re:::resolve_trivial$")]
        ok = rm and len(ins) >= 2 and bool(rt)
        ctx.ob("C07.b/outcome-recorded", fid, ok, "pending removed; value -> resolved (if trivially resolved) else -> conflicts" if ok
               else "mark_completed no longer records both resolved and conflicted outcomes")
    root = MERGER + "mark_completed"
    bs = bodies_with(F, root, MERGER + "enqueue_tree_write")
    if ctx.anchor("C07.b", root, bs, 1):
        b = bs[0]
        ctx.fn_seen(b.id)
        ie = [c for c in b.calls if not c.cleanup and name_matches(c.res or c.decl or "", "re:HashSet::<.*>::is_empty$")]
        ew = b.calls_to(MERGER + "enqueue_tree_write")
        ok = False
        if ie:
            tr, fa = bool_edges(F, b, ie[0])
            ok = all(b.set_dominated(c.bb, set(tr)) for c in ew)
        ctx.ob("C07.b/written-only-when-complete", root, ok, "enqueue_tree_write only on pending_lookup.is_empty()" if ok else
               "a directory can be written while entries are still pending")


def rule_c(ctx):
    F = ctx.F
    root = TM + "resolve_file_values"
    TRY = TM + "try_resolve_file_values"
    bs = bodies_with(F, root, TRY)
    if not ctx.anchor("C07.c", root, bs, 1):
        return
    b = bs[0]
    ctx.fn_seen(b.id)
    sl = F.slicer(b.id)
    rt = [c for c in b.calls if not c.cleanup and name_matches(c.res or c.decl or "", "re:::resolve_trivial$")]
    tv = [c for c in b.calls_to(TRY) if c.decl != "futures::Future::poll"]
    ok = bool(rt) and bool(tv) and all(t.bb in b.after(rt[0].bb) and rt[0].bb not in b.after(t.bb) for t in tv)
    ctx.ob("C07.c/trivial-before-content-merge", root, ok, "resolve_trivial(same_change) is tried before the content merge" if ok else
           "the content merge runs without (or before) the trivial resolution")
    # fallback: unwrap_or(values) with the unmodified parameter
    uo = [c for c in b.calls if not c.cleanup and name_matches(c.res or c.decl or "", "re:Option::<T>::unwrap_or$")]
    okf = False
    for c in uo:
        t = strip(sl.call_arg(c, 1))
        okf = isinstance(t, tuple) and t[0] == "param" and t[2] == "values"
    ctx.ob("C07.c/failed-merge-keeps-the-conflict", root, okf, "maybe_resolved.unwrap_or(values)" if okf else
           "when the content merge fails the function does not return the input terms unchanged")
    ob = [x for x in F.family_bodies(TM + "resolve_file_values_owned") if x.calls_to(TRY)]
    for x in ob:
        xs = F.slicer(x.id)
        uo = [c for c in x.calls if not c.cleanup and name_matches(c.res or c.decl or "", "re:Option::<T>::unwrap_or$")]
        okf = any(isinstance(strip(xs.call_arg(c, 1)), tuple) and strip(xs.call_arg(c, 1))[0] == "param" for c in uo)
        ctx.ob("C07.c/failed-merge-keeps-the-conflict", x.id, okf, "maybe_resolved.unwrap_or(values)" if okf else
               "the scheduler's file merge does not fall back to the input terms")


def rule_d(ctx):
    F = ctx.F
    n = 0
    for fid in F.find_fns("re:^jj_lib::tree_merge::"):
        b = F.body(fid)
        if b is None:
            continue
        sl = None
        for c in b.calls:
            if c.cleanup or not name_matches(c.res or c.decl or "", "re:::resolve_trivial$"):
                continue
            sl = sl or F.slicer(fid)
            t = sl.call_arg(c, 1)
            txt = show(t)
            if "SameChange::Accept" in txt or "SameChange::Keep" in txt:
                # tabled: executable bit / copy id sub-merges use a fixed rule
                ok = b.root == TM + "try_resolve_file_conflict"
                ctx.ob("C07.d/same-change-option", f"{fid}@{b.blocks[c.bb]['t'].get('ln', 0)}", ok,
                       "tabled: executable/copy-id sub-merge with a fixed rule" if ok else
                       f"a path-level trivial merge uses the constant {txt[:40]} instead of the store's option")
                continue
            n += 1
            ctx.fn_seen(fid)
            ok = any(x[1].endswith("Store::merge_options") for x in term_calls(t)) or \
                any(l[0] == "param" and l[2] == "same_change" for l in walk(t)) or \
                any(w[0] == "field" and w[3] == "same_change" for w in walk(t))
            ctx.ob("C07.d/same-change-option", f"{fid}@{b.blocks[c.bb]['t'].get('ln', 0)}", ok,
                   "same_change comes from Store::merge_options()" if ok else
                   f"resolve_trivial is called with {txt[:60]}: paths of one tree would be resolved under different rules")
    ctx.anchor("C07.d", "path-level resolve_trivial sites in tree_merge.rs", n, 4)
