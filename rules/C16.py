"""C16  Operations and views round-trip and are content-addressed.

a/b. writer/reader agreement of the simple op store: every field of the domain structs reachable from
     op_store::{View, Operation} is stored into a proto field that the reader restores it from
c.   hasher shape: every ContentHash impl of a struct reads all its fields, enum impls cover every variant,
     collection impls hash a length prefix before the elements, hash-ordered collections are sorted first
d.   the id is blake2b_hash of the value written and names the persisted file
"""
from jjv.lib import (body_accesses, bodies_with, find_ok_nodes, impls_of, name_matches, norm, show, strip, term_calls,
                     walk)
from rules.serde_common import check_pairwise, check_roundtrip, cone_bodies, relation, struct_fields

OS = "jj_lib::op_store::"
DOMAIN = [OS + "View", OS + "RemoteView", OS + "RemoteRef", OS + "Operation", OS + "OperationMetadata",
          OS + "TimestampRange", "jj_lib::backend::Timestamp"]
PROTO = "jj_lib::protos::simple_op_store::"
CH = "jj_lib::content_hash::ContentHash::hash"


def run(ctx):
    F = ctx.F
    ctx.explanation = (
        "Field-coverage rules over MIR aggregates (post derive/macro expansion): the struct literals in the cone of "
        "SimpleOpStore::write_view/write_operation give a relation proto-field <- domain-field, those in the cone of "
        "read_view/read_operation the inverse relation; every field of View, RemoteView, RemoteRef, Operation, "
        "OperationMetadata, TimestampRange and Timestamp must be carried by some proto field in both directions. "
        "Every ContentHash impl of a jj-lib struct reads all fields, enum impls match all variants and hash a "
        "discriminant, slice/map/set impls hash len() before the elements and HashMap/HashSet sort first; the id "
        "returned by write_* is blake2b_hash(param) and the file persisted is dir.join(id.hex()).")
    ctx.clauses = ["every field is serialized and deserialized through the same proto field",
                   "hash covers every field/variant; prefix-free framing of collections",
                   "id is a function of the value only"]
    ctx.not_decided = ["legacy bookmark re-grouping is an exact inverse for all absent/conflicted combinations",
                       "RefTarget <-> proto term encoding (goes through accessor methods, value-level)"]
    rule_ab(ctx)
    rule_c(ctx)
    rule_d(ctx)
    rule_e(ctx)


def rule_ab(ctx):
    F = ctx.F
    writers = impls_of(F, OS + "OpStore::write_view", crates=("jj_lib",)) + impls_of(F, OS + "OpStore::write_operation", crates=("jj_lib",))
    readers = impls_of(F, OS + "OpStore::read_view", crates=("jj_lib",)) + impls_of(F, OS + "OpStore::read_operation", crates=("jj_lib",))
    ctx.anchor("C16.a", "OpStore write impls", writers, 2)
    ctx.anchor("C16.b", "OpStore read impls", readers, 2)
    is_dom = lambda a: a in DOMAIN
    is_proto = lambda a: bool(a) and a.startswith(PROTO)
    wc, wb = cone_bodies(F, writers)
    rc, rb = cone_bodies(F, readers)
    ctx.fn_seen(*[b.id for b in wb + rb])
    ctx.info["writer_cone"] = len(wc)
    ctx.info["reader_cone"] = len(rc)
    W, ws, wunset, n1 = relation(F, wb, is_dom, is_proto)
    R, rs, runset, n2 = relation(F, rb, is_proto, is_dom)
    ctx.sites += n1 + n2
    ctx.anchor("C16.a", "writer relation pairs", W, 20)
    ctx.anchor("C16.b", "reader relation pairs", R, 20)
    ctx.info["proto_fields_left_default_by_writer"] = sorted(f"{a.split('::')[-1]}.{f}" for a, f in wunset)
    check_roundtrip(ctx, "C16.ab", DOMAIN, W, R, ws, rs)
    check_pairwise(ctx, "C16.ab", W, R, legacy_read_only={
        ("RemoteRef.state", "Bookmark.remote_bookmarks"): "jj < 0.34 stored remote bookmarks inside Bookmark",
        ("RemoteRef.target", "Bookmark.remote_bookmarks"): "jj < 0.34 stored remote bookmarks inside Bookmark",
        ("RemoteView.bookmarks", "Bookmark.name"): "legacy per-bookmark grouping of remote bookmarks (jj < 0.34)",
        ("RemoteView.bookmarks", "Bookmark.remote_bookmarks"): "legacy per-bookmark grouping (jj < 0.34)",
        ("RemoteView.bookmarks", "RemoteBookmark.state"): "legacy per-bookmark grouping (jj < 0.34)",
        ("RemoteView.bookmarks", "RemoteBookmark.target"): "legacy per-bookmark grouping (jj < 0.34)",
        ("RemoteView.tags", "View.git_refs"): "one-time migration of refs/tags/* to remote tags (flag-guarded)",
        ("View.git_heads", "View.git_head_legacy"): "pre-RefTarget git head",
        ("View.wc_commit_ids", "View.wc_commit_id"): "single-workspace repos",
    })
    # enum RemoteRefState: writer matches every variant, reader constructs every variant
    st = OS + "RemoteRefState"
    variants = {r["name"] for r in F.q("SELECT name FROM adt_variant WHERE adt=?", (st,))}
    matched, built = set(), set()
    for b in wb:
        for blk in b.blocks:
            for s in blk["s"]:
                if s["r"]["k"] == "discr" and s["r"].get("adt") == st:
                    matched |= {n for _, n in s["r"]["vs"]}
    for b in rb:
        for blk in b.blocks:
            for s in blk["s"]:
                if s["r"]["k"] == "agg" and s["r"].get("adt") == st:
                    built.add(s["r"]["v"])
    ctx.ob("C16.ab/enum-variants", "RemoteRefState", variants == built and matched >= variants and len(variants) >= 2,
           f"writer matches {sorted(matched)}, reader builds {sorted(built)}")


def rule_c(ctx):
    F = ctx.F
    impls = impls_of(F, CH, crates=("jj_lib",))
    ctx.anchor("C16.c", "ContentHash impls", impls, 50)
    n_struct = n_enum = 0
    for imp in impls:
        fn = F.fns[imp]
        self_ty = fn["self_ty"] or ""
        adt = F.q("SELECT id, kind FROM adt WHERE id=?", (self_ty,))
        b = F.body(imp)
        if adt:
            ctx.fn_seen(imp)
            kind = adt[0]["kind"]
            if kind == "struct":
                n_struct += 1
                fields = set(struct_fields(F, self_ty))
                read = set()
                for (bb, k, p, ln) in body_accesses(b):
                    for e in p[1:]:
                        if isinstance(e, list) and e[0] == "f" and len(e) >= 5 and e[3] == self_ty:
                            read.add(e[2])
                # newtype-ish impls may delegate to an accessor (`self.as_bytes().hash(..)`): accept a call on self
                delegated = not fields - read or (len(fields) == 1 and any(
                    strip(F.slicer(imp).call_arg(c, 0)) == ("param", 1, "self") for c in b.calls if not c.cleanup and c.args
                    and (c.res or c.decl or "").startswith(("jj_lib::", "<jj_lib::")) and c.decl != CH))
                ok = fields <= read or delegated
                ctx.ob("C16.c/hash-covers-fields", self_ty, ok,
                       f"{len(fields)} field(s) hashed" if ok else f"fields not hashed: {sorted(fields - read)}")
            elif kind == "enum":
                n_enum += 1
                variants = [r["name"] for r in F.q("SELECT name FROM adt_variant WHERE adt=?", (self_ty,))]
                seen = set()
                ok_fields = True
                for bb, t in b.switches():
                    ds = b.discr_source(bb)
                    if ds and ds[1] == self_ty:
                        listed = {ds[2][int(v)] for v, _ in t["vals"] if int(v) in ds[2]}
                        seen |= listed
                        if len(listed) < len(variants) and b.succ.get(b.edge_node(bb, "else")):
                            # else-edge must be unreachable (exhaustive match) or cover the remaining variant
                            seen |= set(variants)
                # per-variant fields read
                vf = {}
                for r in F.q("SELECT variant, name FROM adt_field WHERE adt=?", (self_ty,)):
                    vf.setdefault(r["variant"], set()).add(r["name"])
                readv = {}
                for (bb, k, p, ln) in body_accesses(b):
                    for e in p[1:]:
                        if isinstance(e, list) and e[0] == "f" and len(e) >= 5 and e[3] == self_ty:
                            readv.setdefault(e[4], set()).add(e[2])
                missing = {v: sorted(fs - readv.get(v, set())) for v, fs in vf.items() if fs - readv.get(v, set())}
                # a discriminant constant is hashed in every arm: count constant-int hash/update calls
                ok = set(variants) <= seen and not missing
                ctx.ob("C16.c/hash-covers-variants", self_ty, ok,
                       f"{len(variants)} variants matched, all variant fields hashed" if ok else
                       f"variants matched {sorted(seen)} of {variants}; unhashed fields {missing}")
    ctx.anchor("C16.c", "struct ContentHash impls checked", n_struct, 25)
    ctx.anchor("C16.c", "enum ContentHash impls checked", n_enum, 2)
    # collection impls: length prefix dominates element hashing
    for pat, needs_sort in (("<[T] as jj_lib::content_hash::ContentHash>::hash", False),
                            ("<std::collections::HashMap<K, V> as jj_lib::content_hash::ContentHash>::hash", True),
                            ("<std::collections::HashSet<K> as jj_lib::content_hash::ContentHash>::hash", True),
                            ("<std::collections::BTreeMap<K, V> as jj_lib::content_hash::ContentHash>::hash", False)):
        b = F.body(pat)
        if not ctx.anchor("C16.c", pat, 1 if b else 0, 1):
            continue
        ctx.fn_seen(pat)
        sl = F.slicer(pat)
        lens = [c for c in b.calls if not c.cleanup and name_matches(c.res or c.decl or "", "re:::len$")]
        upd = []
        for c in b.calls:
            if c.cleanup or not name_matches(c.decl or "", ("re:::update$", "digest::Update::update")):
                continue
            t = sl.call_arg(c, 1)
            if any(x[3] and any(x[3][1] == l.bb for l in lens) for x in term_calls(t)):
                upd.append(c)
        elems = [c for c in b.calls if not c.cleanup and c.decl == CH]
        ok = bool(upd) and bool(elems) and all(b.set_dominated(e.bb, {u.bb for u in upd}) for e in elems)
        ctx.ob("C16.c/length-prefix", pat.split(" as ")[0][1:], ok,
               f"update(len) dominates {len(elems)} element hash call(s)" if ok else
               "elements are hashed without a preceding length prefix (encodings of different values can collide)")
        if needs_sort:
            sorts = [c for c in b.calls if not c.cleanup and name_matches(c.res or c.decl or "", "re:sort|sorted")]
            oks = bool(sorts) and all(b.set_dominated(e.bb, {s.bb for s in sorts}) for e in elems)
            ctx.ob("C16.c/hash-order-independent", pat.split(" as ")[0][1:], oks,
                   "entries are sorted before hashing" if oks else
                   "a hash-ordered collection is hashed in iteration order (id depends on the run)")
    # Option: both arms hash a tag
    b = F.body("<std::option::Option<T> as jj_lib::content_hash::ContentHash>::hash")
    if ctx.anchor("C16.c", "Option impl", 1 if b else 0, 1):
        ups = [c for c in b.calls if not c.cleanup and name_matches(c.decl or "", ("re:::update$", "digest::Update::update"))]
        ok = False
        for bb, t in b.switches():
            ds = b.discr_source(bb)
            if ds and ds[1] == "std::option::Option":
                es = [b.variant_edge(bb, "None"), b.variant_edge(bb, "Some")]
                rets = b.return_blocks()
                ok = all(e is not None and b.path_avoiding([e], rets, {u.bb for u in ups}) is None for e in es)
        ctx.ob("C16.c/option-tag", "Option<T>", ok, "both arms hash a tag" if ok else "an Option arm hashes no tag")


def rule_d(ctx):
    F = ctx.F
    for trait_item, floor in ((OS + "OpStore::write_view", 1), (OS + "OpStore::write_operation", 1)):
        for imp in impls_of(F, trait_item, crates=("jj_lib",)):
            bs = bodies_with(F, imp, "jj_lib::content_hash::blake2b_hash")
            ctx.anchor("C16.d", f"{imp}: blake2b_hash", bs, 1)
            for b in bs:
                ctx.fn_seen(b.id)
                sl = F.slicer(b.id)
                h = b.calls_to("jj_lib::content_hash::blake2b_hash")[0]
                arg = strip(sl.call_arg(h, 0))
                # the hashed value is the parameter being written (upvar of the async block = fn parameter)
                okh = isinstance(arg, tuple) and arg[0] == "param" and arg[2] in ("view", "operation")
                ctx.ob("C16.d/id-hashes-the-value", imp, okh, f"blake2b_hash({show(arg)})" if okh else
                       f"the id is not the hash of the value written: blake2b_hash({show(arg)[:100]})", where=h.where())
                # persisted path = dir.join(id.hex()) with id from that hash
                from jjv.lib import ok_exit_nodes
                ps = b.calls_to("jj_lib::file_util::persist_content_addressed_temp_file")
                okp = False
                for p in ps:
                    t = sl.call_arg(p, 1)
                    names = [x[1] for x in term_calls(t)]
                    okp = any(name_matches(n, "re:::hex$") for n in names) and \
                        "jj_lib::content_hash::blake2b_hash" in names and any(name_matches(n, "re:Path.*::join$") for n in names)
                ctx.ob("C16.d/file-named-by-id", imp, okp, "persisted at dir.join(id.hex())" if okp else
                       "the object file is not named by the content hash")
                # the proto written derives from the same parameter
                wr = [c for c in b.calls if not c.cleanup and name_matches(c.res or c.decl or "", "re:::write_all$")]
                okw = False
                for w in wr:
                    t = sl.call_arg(w, 1)
                    if any(l[0] == "param" and l[2] == arg[2] for l in __import__("jjv.lib", fromlist=["term_leaves"]).term_leaves(t)):
                        okw = True
                # every Ok return passes a successful write_all and a successful persist (no "already there" shortcut:
                # gc() relies on a rewrite renewing the mtime, and an existing file may be torn)
                oks, _, _ = ok_exit_nodes(F, b)
                for what, cs in (("write_all", wr), ("persist_content_addressed_temp_file", ps)):
                    doms = set()
                    for c in cs:
                        doms |= find_ok_nodes(F, b, c)
                    pth = b.path_avoiding([0], list(oks), doms) if oks else [0]
                    ctx.ob("C16.d/every-success-wrote-the-object", f"{imp}|{what}", bool(doms) and bool(oks) and pth is None,
                           f"every Ok return passes a ?-checked {what}" if doms and oks and pth is None else
                           f"{imp.split('::')[-1]} can return an id without having written the object ({what} skipped): "
                           f"{b.show_path(pth)[-4:] if pth else ''}")
                ctx.ob("C16.d/bytes-from-same-value", imp, okw, "serialized bytes derive from the hashed parameter" if okw
                       else "the bytes written do not derive from the value that is hashed")


# narrowing adapters: an element of a domain collection that passes through one of these may not reach the proto
NARROWING = ("re:^std::iter::Iterator::(filter|filter_map|take|skip|take_while|skip_while|step_by|find|find_map|nth|last|"
             "min|max|min_by|max_by|min_by_key|max_by_key|map_while|scan)$",
             "re:^itertools::Itertools::(dedup|dedup_by|unique|unique_by|take_while_ref|peeking_take_while|"
             "filter_ok|filter_map_ok|at_most_one|exactly_one)$",
             "re:^std::vec::Vec::<.*>::(retain|truncate|dedup|dedup_by|dedup_by_key|pop|drain|split_off)$",
             "re:^std::collections::\\w+::<.*>::(retain|pop_first|pop_last)$")
NARROWING_OK = {
    ("view_from_proto", "filter_map"):
        "one-time migration: selects refs/tags/* out of git_refs into remote tags; git_refs itself is kept whole",
    ("adds", "step_by"): "Merge<T> interleaved storage: even positions",
    ("removes", "step_by"): "Merge<T> interleaved storage: odd positions",
}


def rule_e(ctx):
    """codec functions carry every element: no narrowing iterator adapter between a domain collection and the proto
    (or back), except the tabled ones."""
    F = ctx.F
    writers = impls_of(F, OS + "OpStore::write_view", crates=("jj_lib",)) + impls_of(F, OS + "OpStore::write_operation", crates=("jj_lib",))
    readers = impls_of(F, OS + "OpStore::read_view", crates=("jj_lib",)) + impls_of(F, OS + "OpStore::read_operation", crates=("jj_lib",))
    seen_ok = set()
    nb = 0
    for kind, roots in (("writer", writers), ("reader", readers)):
        _, bodies = cone_bodies(F, roots)
        for b in bodies:
            codec = b.root.startswith("jj_lib::simple_op_store::") or \
                (kind == "writer" and b.root.startswith("jj_lib::merge::Merge::<T>::") and b.root.split("::")[-1] in ("adds", "removes"))
            if not codec:
                continue
            nb += 1
            for c in b.calls:
                if c.cleanup:
                    continue
                n = c.decl or c.res or ""
                if not name_matches(n, NARROWING) and not name_matches(c.res or "", NARROWING):
                    continue
                key = (b.root.split("::")[-1], n.split("::")[-1])
                if key in NARROWING_OK:
                    seen_ok.add(key)
                    ctx.ob("C16.e/codec-carries-every-element", f"{kind}|{key[0]}|{key[1]}", True, "tabled: " + NARROWING_OK[key])
                else:
                    ctx.ob("C16.e/codec-carries-every-element", f"{kind}|{key[0]}|{key[1]}", False,
                           f"{b.root} narrows a collection with {n.split('::')[-1]}() on the way "
                           f"{'into' if kind == 'writer' else 'out of'} the stored form: elements it drops are not "
                           f"{'stored' if kind == 'writer' else 'restored'}", where=c.where())
    ctx.anchor("C16.e", "codec bodies in simple_op_store scanned", nb, 30)
    ctx.anchor("C16.e", "tabled narrowing adapters still present (positive control)", seen_ok, 3)
