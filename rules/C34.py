"""C34  Git import and export converge without dropping updates (the no-overwrite half).

a. unconstrained ref edits (PreviousValue::Any) exist only for jj-owned refs; every other edit in lib/src/git.rs is a
   compare-and-set (MustNotExist / MustExistAndMatch / MustExist / ExistingMustMatch)
b. delete_git_ref deletes only when Git still points at the position jj last saw; otherwise reports
   DeletedInJjModifiedInGit
c. export compares View::git_refs (last agreed state) with the local refs; conflicted old or new targets are never
   turned into an update/delete
d. import changes local bookmarks/tags only by three-way merge (base = tracked target of the old remote ref, other
   = new target), never by assignment
e. export order does not depend on hash order (sorted after the hash-map iteration)
"""
from jjv.lib import (bool_edges, name_matches, norm, show, strip, term_calls, term_fields, term_leaves, walk)

G = "jj_lib::git::"
PV = "gix::gix_ref::transaction::PreviousValue"
MR = "jj_lib::repo::MutableRepo::"

ANY_ALLOWED = {
    G + "update_git_head": "deletes the jj-owned placeholder ref refs/jj/root",
    G + "to_remote_tag_ref_update": "refs/jj/remote-tags/* are owned by jj (not a Git namespace)",
}


def run(ctx):
    ctx.explanation = (
        "Compare-and-set discipline decided on MIR: the PreviousValue variants constructed in jj_lib::git are "
        "enumerated; `Any` may appear only in two tabled functions that edit jj-owned refs; create/move use "
        "MustNotExist/MustExistAndMatch; Reference::delete in delete_git_ref lies on the true edge of the comparison of "
        "the ref's current commit with the old oid, the false edge returns DeletedInJjModifiedInGit; in "
        "collect_changed_refs_to_export pushes to to_update/to_delete are unreachable from has_conflict()==true "
        "edges and the three result vectors are sorted; diff_refs_to_export takes old values from View::git_refs; "
        "import_refs_inner never assigns local bookmark/tag targets, it merges with base = "
        "old_remote_ref.tracked_target() and other = the new target.")
    ctx.clauses = ["every cross-store ref edit is a compare-and-set", "deletion only of unchanged refs",
                   "conflicts are never exported as updates", "import merges instead of overwriting",
                   "deterministic export order"]
    ctx.not_decided = ["convergence (a second import is a no-op)", "equality of Git branches and bookmarks after "
                       "import+export over arbitrary interleavings (value-level)"]
    rule_a(ctx)
    rule_b(ctx)
    rule_c(ctx)
    rule_d(ctx)


def rule_a(ctx):
    F = ctx.F
    rows = F.q("SELECT root, variant, count(*) AS n FROM aggregate WHERE adt LIKE '%PreviousValue' AND root LIKE 'jj_lib::git::%' "
               "GROUP BY 1,2")
    ctx.anchor("C34.a", "PreviousValue constructions in jj_lib::git", rows, 8)
    for r in rows:
        root, v = r["root"], r["variant"]
        ctx.fn_seen(root)
        if v == "Any":
            ok = root in ANY_ALLOWED
            ctx.ob("C34.a/unconstrained-edit-only-for-jj-owned-refs", root, ok, ANY_ALLOWED.get(root, "") if ok else
                   "a Git ref is edited with PreviousValue::Any: a concurrent change made in Git is overwritten")
        else:
            ctx.ob("C34.a/compare-and-set", f"{root}|{v}", True, f"{r['n']} edit(s) constrained by {v}")
    # jj-owned namespace in the two exceptions
    for root in ANY_ALLOWED:
        consts = {r["v"] for r in F.q("SELECT v FROM str_const WHERE root=?", (root,))} | \
                 {F.const_value(r["item"]) for r in F.q("SELECT item FROM const_ref WHERE root=?", (root,))}
        lits = {r["v"] for r in F.q("SELECT v FROM lit WHERE root=?", (root,))}
        ok = any(isinstance(c, str) and c.startswith("refs/jj/") for c in consts) or \
            any("REMOTE_TAG_REF_NAMESPACE" in l or "UNBORN_ROOT_REF_NAME" in l for l in lits) or \
            bool(F.q("SELECT 1 FROM const_ref WHERE root=? AND item IN ('jj_lib::git::UNBORN_ROOT_REF_NAME','jj_lib::git::REMOTE_TAG_REF_NAMESPACE')", (root,)))
        # to_remote_tag_ref_update names the ref through to_git_or_remote_tag_ref_name
        if not ok:
            ok = any(name_matches(c.res or c.decl or "", "re:to_git_or_remote_tag_ref_name$") for b in F.family_bodies(root) for c in b.calls)
        ctx.ob("C34.a/exception-edits-jj-namespace", root, ok, "edits a refs/jj/* ref" if ok else
               "the unconstrained edit no longer targets a jj-owned ref")
    # create / move use the expected constraints
    for fn, want in ((G + "create_git_ref", {"MustNotExist"}), (G + "move_git_ref", {"MustExistAndMatch"})):
        got = {r["variant"] for r in rows if r["root"] == fn}
        ctx.ob("C34.a/constraint-kind", fn, got == want, f"{sorted(got)}" if got == want else f"expected {sorted(want)}, found {sorted(got)}")


def rule_b(ctx):
    F = ctx.F
    fn = G + "delete_git_ref"
    b = F.body(fn)
    if not ctx.anchor("C34.b", fn, 1 if b else 0, 1):
        return
    ctx.fn_seen(fn)
    sl = F.slicer(fn)
    dels = [c for c in b.calls if not c.cleanup and name_matches(c.res or c.decl or "", "re:Reference.*::delete$")]
    ctx.anchor("C34.b", "Reference::delete in delete_git_ref", dels, 1)
    eqs = []
    for c in b.calls:
        if c.cleanup or c.decl != "std::cmp::PartialEq::eq":
            continue
        names = {x[1] for k in range(len(c.args)) for x in term_calls(sl.call_arg(c, k))}
        params = {l[2] for k in range(len(c.args)) for l in term_leaves(sl.call_arg(c, k)) if l[0] == "param"}
        if any(n.endswith("resolve_git_ref_to_commit_id") for n in names) and "old_oid" in params:
            eqs.append(c)
    ok = False
    for e in eqs:
        trues, falses = bool_edges(F, b, e)
        if trues and all(b.set_dominated(d.bb, set(trues)) for d in dels):
            ok = True
            errs = F.q("SELECT bb FROM aggregate WHERE fn=? AND variant='DeletedInJjModifiedInGit'", (fn,))
            ok2 = bool(errs) and all(b.set_dominated(r["bb"], set(falses)) for r in errs)
            ctx.ob("C34.b/modified-in-git-reported", fn, ok2, "the mismatch edge returns DeletedInJjModifiedInGit" if ok2 else
                   "a ref changed in Git is not reported as such")
    ctx.ob("C34.b/delete-only-if-unchanged", fn, ok, "delete() only when the ref still resolves to old_oid" if ok else
           "a Git ref is deleted without checking that Git still has the position jj last saw")


def rule_c(ctx):
    F = ctx.F
    fn = G + "collect_changed_refs_to_export"
    b = F.body(fn)
    if ctx.anchor("C34.c", fn, 1 if b else 0, 1):
        ctx.fn_seen(fn)
        sl = F.slicer(fn)
        pushes = []
        for c in b.calls:
            if c.cleanup or not name_matches(c.res or c.decl or "", "re:Vec.*::push$"):
                continue
            recv = sl.call_arg(c, 0)
            # which vector: identify by the tuple pushed: to_update pairs (old_oid,new_oid); to_delete (symbol, oid)
            val = sl.call_arg(c, 1)
            is_failed = any(w[0] == "agg" and (w[1] or "").endswith("FailedRefExportReason") for w in walk(val))
            if not is_failed:
                pushes.append(c)
        ctx.anchor("C34.c", "pushes to to_update / to_delete", pushes, 2)
        conf_true = set()
        for c in b.calls:
            if not c.cleanup and name_matches(c.res or c.decl or "", "re:RefTarget::has_conflict$"):
                t, f = bool_edges(F, b, c)
                conf_true |= set(t)
        ctx.anchor("C34.c", "has_conflict tests", conf_true, 2)
        for p in pushes:
            path = b.path_avoiding(list(conf_true), [p.bb])
            # a path from a conflict edge may loop back to the next iteration; cut at the loop head (Iterator::next)
            nexts = {c.bb for c in b.calls if not c.cleanup and c.decl == "std::iter::Iterator::next"}
            path = b.path_avoiding(list(conf_true), [p.bb], avoid=nexts)
            ctx.ob("C34.c/conflicts-not-exported", f"{fn}#{pushes.index(p)}", path is None,
                   "no update/delete is recorded for a conflicted old or new target in the same iteration" if path is None else
                   "a conflicted target can be exported as an update/delete (overwriting Git's value)", where=p.where())
        sorts = [c for c in b.calls if not c.cleanup and name_matches(c.res or c.decl or "", "re:sort_unstable_by$|sort_by$|::sort$")]
        ctx.ob("C34.e/export-order-sorted", fn, len(sorts) >= 3, f"{len(sorts)} sorts after the hash-map iteration" if len(sorts) >= 3 else
               "export results are left in hash order")
    fn = G + "diff_refs_to_export"
    fam = F.family_bodies(fn)
    if ctx.anchor("C34.c", fn, fam, 1):
        names = {c.res or c.decl or "" for b in fam for c in b.calls if not c.cleanup}
        ok = any(n.endswith("View::git_refs") for n in names) and any(n.endswith("View::local_bookmarks") for n in names) \
            and any(n.endswith("View::local_tags") for n in names)
        ctx.ob("C34.c/old-from-git-refs-new-from-local", fn, ok, "old = View::git_refs(), new = local bookmarks/tags" if ok else
               "export no longer diffs the last agreed state (git_refs) against the local refs")
        # the and_modify closure overwrites the OLD slot (tuple .0) with the git_refs target
        okslot, badslot = False, False
        for b in fam:
            if b.id == fn:
                continue
            refs = {}
            for blk in b.blocks:
                for s in blk["s"]:
                    rv = s["r"]
                    if rv["k"] == "ref" and rv["m"] == "mut" and len(s["l"]) == 1:
                        fs = [e for e in rv["p"][1:] if isinstance(e, list) and e[0] == "f" and e[2] == "^tuple"]
                        if fs:
                            refs[s["l"][0]] = fs[-1][1]
            for blk in b.blocks:
                for s in blk["s"]:
                    l = s["l"]
                    if len(l) == 2 and l[1] == "*" and l[0] in refs:
                        if refs[l[0]] == 0:
                            okslot = True
                        else:
                            badslot = True
        okslot = okslot and not badslot
        ctx.ob("C34.c/git-refs-fill-the-old-slot", fn, okslot, "known git refs overwrite the `old` component of (old, new)" if okslot
               else "the git_refs value is not stored as the old side of the comparison")


def rule_d(ctx):
    F = ctx.F
    root = G + "import_refs_inner"
    fam = F.family_bodies(root)
    if not ctx.anchor("C34.d", root, fam, 1):
        return
    ctx.fn_seen(*[b.id for b in fam])
    names = [c.res or c.decl or "" for b in fam for c in b.calls if not c.cleanup]
    bad = [n for n in names if n in (MR + "set_local_bookmark_target", MR + "set_local_tag_target")]
    ctx.ob("C34.d/no-assignment-of-local-refs", root, not bad, "local bookmarks/tags are never assigned during import" if not bad
           else f"import assigns local refs directly ({bad[0].split('::')[-1]}): a concurrent local move is overwritten")
    for callee in (MR + "merge_local_bookmark", MR + "merge_local_tag"):
        found = False
        for b in fam:
            sl = F.slicer(b.id)
            for c in b.calls:
                if c.cleanup or (c.res or "") != callee:
                    continue
                found = True
                base, other = sl.call_arg(c, 2), sl.call_arg(c, 3)
                okb = any(x[1].endswith("RemoteRef::tracked_target") for x in term_calls(base)) and \
                    any(w[0] == "field" and w[3] == "old_remote_ref" for w in walk(base))
                oko = any(w[0] == "field" and w[3] == "new_target" for w in walk(other)) and \
                    not any(w[0] == "field" and w[3] == "old_remote_ref" for w in walk(other))
                ctx.ob("C34.d/three-way-merge-roles", callee.split("::")[-1], okb and oko,
                       "base = old_remote_ref.tracked_target(), other = new_target" if okb and oko else
                       f"merge roles are wrong: base={show(base)[:80]} other={show(other)[:80]}", where=c.where())
        ctx.ob("C34.d/merge-present", callee.split("::")[-1], found, "called during import" if found else
               "imported remote changes are no longer merged into the local ref")
