"""C26  Edits after a command finished are always detected (racy-timestamp guard).

a. FileSnapshotter::get_updated_tree_value skips re-reading a file only on paths where BOTH
   new_state.is_clean(old_state) held AND old_state.mtime < tree_state.own_mtime (strictly)
b. FileState::is_clean compares file_type, mtime and size of both operands
c. TreeState.own_mtime is written only by update_own_mtime (from symlink_metadata of the state file, or 0) and the
   constructor; load calls it; save calls it before persisting (never newer than the file it describes)
d. an untracked path (no previous state) is never clean
e. file-system-monitor path (watchman feature is part of the default build): the walk may be narrowed to the files the
   monitor reported only when the query succeeded and was not a fresh instance; the clock stored in the tree state is the
   one returned by the very query that narrowed this snapshot's walk; the clock has a frozen writer set
"""
from jjv.lib import (PathExplorer, bodies_with, body_accesses, check_order, name_matches, ok_exit_nodes, op_const, op_place,
                     place_has_field, show, strip, term_fields)

LW = "jj_lib::local_working_copy::"
FS = LW + "FileState"
TS = LW + "TreeState"
GUTV = LW + "FileSnapshotter::<'_>::get_updated_tree_value"
STORE_CALLS = ("re:FileSnapshotter.*::write_path_to_store$", "re:FileSnapshotter.*::write_symlink_to_store$")


def run(ctx):
    F = ctx.F
    ctx.explanation = (
        "Path-sensitive rule on the MIR of get_updated_tree_value: every feasible path (bool constants propagated) "
        "that returns without reaching write_path_to_store/write_symlink_to_store carries the facts "
        "is_clean(..)==true and (state.mtime < tree_state.own_mtime)==true, the comparison being the strict "
        "MillisSinceEpoch ordering with operands identified by the fields they read; is_clean reads file_type, mtime "
        "and size of both states; own_mtime is written only in update_own_mtime from the state file's "
        "symlink_metadata (or 0) and that call precedes persist in save and happens on load; the None (untracked) arm "
        "is never clean.")
    ctx.clauses = ["skip only when clean AND strictly older than the state file", "cleanliness compares type, mtime, size",
                   "own_mtime provenance and update points", "untracked is never clean"]
    ctx.not_decided = ["file-system timestamp granularity itself", "that watchman itself reports every change since the clock"]
    rule_a(ctx)
    rule_b(ctx)
    rule_c(ctx)
    rule_e(ctx)


def rule_a(ctx):
    F = ctx.F
    bs = bodies_with(F, GUTV, STORE_CALLS)
    if not ctx.anchor("C26.a", "get_updated_tree_value body", bs, 1):
        return
    b = bs[0]
    ctx.fn_seen(b.id)
    sl = F.slicer(b.id)
    clean_calls = [c for c in b.calls if not c.cleanup and (c.res or "") == FS + "::is_clean"]
    cmp_calls = []
    for c in b.calls:
        if c.cleanup or c.decl not in ("std::cmp::PartialOrd::lt", "std::cmp::PartialOrd::gt", "std::cmp::PartialOrd::le",
                                       "std::cmp::PartialOrd::ge"):
            continue
        f0, f1 = term_fields(sl.call_arg(c, 0)), term_fields(sl.call_arg(c, 1))
        m0, o0 = (FS, "mtime") in f0, (TS, "own_mtime") in f0
        m1, o1 = (FS, "mtime") in f1, (TS, "own_mtime") in f1
        op = c.decl.split("::")[-1]
        # which truth value of the call means "mtime strictly older than own_mtime"
        want = None
        if m0 and o1 and not o0 and not m1:
            want = {"lt": 1, "ge": 0}.get(op)
        elif o0 and m1 and not m0 and not o1:
            want = {"gt": 1, "le": 0}.get(op)
        cmp_calls.append((c, want, op))
    ctx.anchor("C26.a", "is_clean call", clean_calls, 1)
    ctx.anchor("C26.a", "mtime/own_mtime comparison", cmp_calls, 1)
    for c, want, op in cmp_calls:
        ctx.ob("C26.a/strict-comparison", f"{GUTV}|{op}", want is not None,
               f"`{op}` between FileState.mtime and TreeState.own_mtime expresses strict `mtime < own_mtime`" if want is not None
               else f"the racy-timestamp comparison `{op}` is not strict (a same-millisecond edit would be missed)",
               where=c.where())
    stores = b.calls_to(STORE_CALLS)
    okn, errn, other = ok_exit_nodes(F, b)
    interest = {("call", c.bb) for c in clean_calls} | {("call", c.bb) for c, _, _ in cmp_calls}
    px = PathExplorer(F, b, interest)
    res = px.run([0], okn + other, avoid={s.bb for s in stores})
    bad = []
    for node, facts, path in res:
        if facts.get("overflow"):
            bad.append((facts, path))
            continue
        c_ok = any(facts.get(("call", c.bb)) == ("eq", 1) for c in clean_calls)
        m_ok = any(want is not None and facts.get(("call", c.bb)) == ("eq", want) for c, want, _ in cmp_calls)
        if not (c_ok and m_ok):
            bad.append((facts, path))
    ctx.ob("C26.a/skip-requires-clean-and-older", GUTV, bool(res) and not bad,
           f"{len(res)} feasible path class(es) return without re-reading the file; all require is_clean && mtime<own_mtime"
           if res and not bad else
           f"a path skips re-reading the file without both conditions: facts={bad[0][0] if bad else None} "
           f"path={b.show_path(bad[0][1])[-8:] if bad else 'no skip path found (anchor)'}", sites=max(len(res), 1))
    # d. the None arm (untracked) cannot skip: the skip paths all pass the Some edge of the match on the old state
    sw = None
    for bb, t in b.switches():
        ds = b.discr_source(bb)
        if ds and ds[1] == "std::option::Option":
            tt = strip(sl.place(ds[0], at=bb))
            if isinstance(tt, tuple) and tt[0] == "param" and "current_file_state" in (tt[2] or ""):
                sw = bb
    if sw is None:
        # async closure: the parameter arrives as an upvar
        for bb, t in b.switches():
            ds = b.discr_source(bb)
            if ds and ds[1] == "std::option::Option" and sw is None and bb in b.reachable:
                sw = bb
    none_e = b.variant_edge(sw, "None") if sw is not None else None
    res2 = px.run([none_e], okn + other, avoid={s.bb for s in stores}) if none_e is not None else [1]
    ctx.ob("C26.d/untracked-never-clean", GUTV, none_e is not None and not res2,
           "no feasible path from the None (untracked) arm returns without re-reading" if none_e is not None and not res2
           else "an untracked path can be treated as clean")


def rule_b(ctx):
    F = ctx.F
    fid = FS + "::is_clean"
    b = F.body(fid)
    if not ctx.anchor("C26.b", fid, 1 if b else 0, 1):
        return
    ctx.fn_seen(fid)
    seen = {1: set(), 2: set()}
    sl = F.slicer(fid)
    for (bb, k, p, ln) in body_accesses(b):
        for e in p[1:]:
            if isinstance(e, list) and e[0] == "f" and len(e) >= 5 and e[3] == FS:
                t = strip(sl.local(p[0]))
                if isinstance(t, tuple) and t[0] == "param":
                    seen[t[1]].add(e[2])
    for f in ("file_type", "mtime", "size"):
        ok = f in seen[1] and f in seen[2]
        ctx.ob("C26.b/is-clean-compares", f, ok, f"{f} of both states compared" if ok else
               f"is_clean does not compare `{f}` (a same-size / same-mtime edit would look clean)")


def rule_c(ctx):
    F = ctx.F
    allowed = {TS + "::update_own_mtime", TS + "::empty"}
    rows = F.q("SELECT DISTINCT fn FROM field_access WHERE adt=? AND field='own_mtime'", (TS,))
    n = 0
    for r in rows:
        b = F.body(r["fn"])
        ws = [(bb, k, p, ln) for (bb, k, p, ln) in body_accesses(b) if k in ("write", "mut", "callret")
              and place_has_field(p, TS, "own_mtime")]
        if not ws:
            continue
        n += 1
        ctx.ob("C26.c/own-mtime-writers", b.root, b.root in allowed, "tabled writer" if b.root in allowed else
               "TreeState.own_mtime is written outside update_own_mtime", where=f"{b.file}:{ws[0][3]}")
    ctx.anchor("C26.c", "writers of own_mtime", n, 1)
    # provenance in update_own_mtime: symlink_metadata of the state file, or const 0
    b = F.body(TS + "::update_own_mtime")
    if ctx.anchor("C26.c", "update_own_mtime", 1 if b else 0, 1):
        sl = F.slicer(b.id)
        ok = True
        kinds = []
        for i, blk in enumerate(b.blocks):
            for s in blk["s"]:
                if place_has_field(s["l"], TS, "own_mtime"):
                    t = sl._rvalue(s["r"], i)
                    names = {x[1] for x in __import__("jjv.lib", fromlist=["term_calls"]).term_calls(t)}
                    extra = {n_ for n_ in names if not name_matches(n_, (
                        "std::path::Path::symlink_metadata", "re:mtime_from_metadata$", "re:^std::path::(Path|PathBuf)::",
                        "re:^<.* as std::ops::Deref>::deref$", "re:^<.* as std::convert::AsRef<.*>>::as_ref$"))}
                    if "std::path::Path::symlink_metadata" in names and any("mtime_from_metadata" in n_ for n_ in names) \
                            and not extra:
                        kinds.append("metadata")
                    elif strip(t)[0] == "agg" and all(v == ("const", 0) for v in strip(t)[3].values()):
                        kinds.append("zero")
                    else:
                        ok = False
                        kinds.append(show(t)[:80])
        ctx.ob("C26.c/own-mtime-provenance", TS + "::update_own_mtime", ok and "metadata" in kinds,
               f"own_mtime := {kinds}" if ok else f"own_mtime assigned from {kinds} (e.g. the current time would be newer "
                                                  f"than the state file)")
    check_order(ctx, "C26.c/mtime-updated-before-persist", TS + "::save", TS + "::update_own_mtime",
                "jj_lib::file_util::persist_temp_file", checked=False)
    # never after the persist
    for b in bodies_with(F, TS + "::save", "jj_lib::file_util::persist_temp_file"):
        ps = b.calls_to("jj_lib::file_util::persist_temp_file")
        us = b.calls_to(TS + "::update_own_mtime")
        late = [u for u in us if any(u.bb in b.after(p.bb) for p in ps)]
        ctx.ob("C26.c/no-update-after-persist", TS + "::save", not late,
               "own_mtime is not refreshed after the new state file is in place" if not late else
               "own_mtime is refreshed from the new file (edits racing with the save become invisible)")
    loads = bodies_with(F, TS + "::read", TS + "::update_own_mtime")
    ctx.ob("C26.c/load-updates-own-mtime", TS + "::read", bool(loads), "TreeState::read calls update_own_mtime" if loads
           else "loading the tree state no longer records the state file's mtime")


def rule_e(ctx):
    F = ctx.F
    from jjv.lib import alts, term_calls, walk
    WM = "jj_lib::fsmonitor::watchman::Fsmonitor::query_changed_files"
    MK = TS + "::make_fsmonitor_matcher"
    QW = TS + "::query_watchman"
    # e1. fresh instance => no narrowing
    qb = [b for b in F.family_bodies(WM) if any(True for _ in b.switches())]
    qb = [b for b in qb if b.calls_to("re:collect_vec$|::collect$")]
    if ctx.anchor("C26.e", "watchman query_changed_files body", qb, 1):
        b = qb[0]
        ctx.fn_seen(b.id)
        sl = F.slicer(b.id)
        ok = False
        for bb, t in b.switches():
            p = op_place(t["o"])
            if p is None or b.locals[p[0]] != "bool":
                continue
            term = show(sl.place(p, at=bb))
            if "is_fresh_instance" not in term:
                continue
            e_true, e_false = b.edge_node(bb, "else"), b.edge_node(bb, 0)
            rt = b.reachable_from([e_true], avoid=[e_false])
            rf = b.reachable_from([e_false], avoid=[e_true])
            somes = {i for i, blk in enumerate(b.blocks) if not blk.get("c") for st in blk["s"]
                     if st["r"]["k"] == "agg" and st["r"].get("adt") == "std::option::Option" and st["r"].get("v") == "Some"}
            nones = {i for i, blk in enumerate(b.blocks) if not blk.get("c") for st in blk["s"]
                     if st["r"]["k"] == "agg" and st["r"].get("adt") == "std::option::Option" and st["r"].get("v") == "None"}
            # the list of changed paths (Some(paths)) is built only on the not-fresh edge
            collects = {c.bb for c in b.calls_to("re:collect_vec$|::collect$")}
            ok = bool(collects) and collects <= rf and not (collects & b.reachable_from([e_true]))
        ctx.ob("C26.e/fresh-instance-means-full-scan", b.id, ok,
               "changed paths are returned only when !is_fresh_instance; a fresh instance yields None (crawl everything)" if ok else
               "a fresh watchman instance (which knows nothing about earlier changes) can narrow the snapshot walk")
    # e3. every alternative of `changed_files` in make_fsmonitor_matcher: None, the Test setting, or the Ok payload of query_watchman
    mb = [b for b in F.family_bodies(MK) if b.calls_to(QW)]
    if ctx.anchor("C26.e", "make_fsmonitor_matcher body", mb, 1):
        b = mb[0]
        ctx.fn_seen(b.id)
        sl = F.slicer(b.id)
        qc = [c for c in b.calls_to(QW) if c.decl != "futures::Future::poll"]
        # the matcher narrows from FilesMatcher::new(paths): paths must derive from the query's Ok result or the Test field
        fm = b.calls_to("re:matchers::FilesMatcher::new$")
        okp = bool(fm)
        why = ""
        for c in fm:
            t = sl.call_arg(c, 0)
            names = {x[1] for x in term_calls(t)}
            from_query = QW in names
            from_test = any(w[0] == "variant" and "Test" in str(w) for w in walk(t)) or "changed_files" in show(t)
            lits = [w for w in walk(t) if w[0] == "call" and name_matches(w[1], "re:Vec::<.*>::new$|vec::from_elem$")]
            if not (from_query or from_test) or lits:
                okp = False
                why = show(t)[:100]
        ctx.ob("C26.e/narrowing-set-comes-from-the-monitor", b.id, okp,
               "FilesMatcher::new(paths) with paths from query_watchman()'s Ok result (or the Test setting)" if okp else
               f"the walk can be narrowed to a path list that the monitor did not report: {why}")
        # every way `changed_files` can be Some(..): only the monitor's Ok answer or the Test setting -- in particular the
        # Err arm of the query and the None setting must yield None (full scan)
        bad, n_alt = [], 0
        for c in fm:
            t = sl.call_arg(c, 0)
            for w in walk(t):
                if not (w[0] == "variant" and w[2] == "Some"):
                    continue
                inner = strip(w[1])
                if not (isinstance(inner, tuple) and inner[0] == "field" and inner[2] == "(tuple)"):
                    continue
                k = int(inner[3])
                for a in alts(inner[1]):
                    a = strip(a)
                    if not (isinstance(a, tuple) and a[0] == "tuple" and len(a[1]) > k):
                        bad.append("unrecognised: " + show(a)[:60])
                        continue
                    n_alt += 1
                    e = strip(a[1][k])
                    txt = show(e)
                    if isinstance(e, tuple) and e[0] == "agg" and "Option::None" in txt[:40]:
                        continue
                    names = {x[1] for x in term_calls(e)}
                    from_query = QW in names and any(v[0] == "variant" and v[2] == "Ok" for v in walk(e))
                    from_test = any(v[0] == "variant" and v[2] == "Test" for v in walk(e))
                    if not (from_query or from_test):
                        bad.append(txt[:80])
        ctx.ob("C26.e/monitor-failure-means-full-scan", b.id, n_alt >= 3 and not bad,
               f"changed_files is Some(..) only from the Ok answer of query_watchman or the Test setting ({n_alt} alternatives)"
               if n_alt >= 3 and not bad else
               f"changed_files can be Some(..) without a successful monitor answer: {bad[:2]} (the walk is narrowed although "
               f"nothing is known about what changed)")
    # e5/e6. writers of TreeState.watchman_clock
    allowed = {TS + "::snapshot": "clock of this snapshot's query", TS + "::reset_watchman": "take()",
               TS + "::read": "loaded state", TS + "::empty": "None", TS + "::init": "None"}
    n = 0
    for r in F.q("SELECT DISTINCT fn FROM field_access WHERE adt=? AND field='watchman_clock'", (TS,)):
        b = F.body(r["fn"])
        ws = [(bb, k, p, ln) for (bb, k, p, ln) in body_accesses(b) if k in ("write", "mut") and place_has_field(p, TS, "watchman_clock")]
        if not ws:
            continue
        n += 1
        ctx.ob("C26.e/clock-writers", b.root, b.root in allowed, allowed.get(b.root, "") if b.root in allowed else
               "TreeState.watchman_clock is written by a function outside the tabled set", where=f"{b.file}:{ws[0][3]}")
        if b.root == TS + "::snapshot":
            sl = F.slicer(b.id)
            for i, blk in enumerate(b.blocks):
                if blk.get("c"):
                    continue
                for st in blk["s"]:
                    if place_has_field(st["l"], TS, "watchman_clock") and len([e for e in st["l"][1:] if isinstance(e, list) and e[0] == "f"]) >= 1:
                        t = sl._rvalue(st["r"], i)
                        names = {x[1] for x in term_calls(t)}
                        ok = MK in names and QW not in names
                        ctx.ob("C26.e/stored-clock-is-this-snapshots-query", f"{b.id}@{st.get('ln', 0)}", ok,
                               "watchman_clock := make_fsmonitor_matcher(..).watchman_clock (the query that narrowed this walk)" if ok
                               else f"the stored clock does not come from the query that restricted this walk: {show(t)[:100]} "
                               f"(changes between that query and a later one are never rescanned)")
    ctx.anchor("C26.e", "writers of TreeState.watchman_clock", n, 2)
    mk_sites = [c for c in F.all_calls_to(MK, crates=("jj_lib",)) if not c.cleanup and c.decl != "futures::Future::poll"]
    ctx.ob("C26.e/one-monitor-query-per-snapshot", MK, len(mk_sites) == 1 and mk_sites[0].body.root == TS + "::snapshot",
           "make_fsmonitor_matcher is called once, by snapshot: the clock stored and the file list used come from one query"
           if len(mk_sites) == 1 else
           f"{len(mk_sites)} calls of make_fsmonitor_matcher: the stored clock can come from a later query than the file list "
           f"that narrowed the walk", where=mk_sites[-1].where() if mk_sites else None)
    callers = {c.body.root for c in F.all_calls_to(QW, crates=("jj_lib",)) if not c.cleanup}
    ok = callers <= {MK, LW + "LocalWorkingCopy::query_watchman"}
    ctx.ob("C26.e/single-query-per-snapshot", QW, ok, f"called from {sorted(x.split('::')[-1] for x in callers)}" if ok else
           f"query_watchman has new callers {sorted(callers)}")


def find_ok_nodes_(F, b, c):
    from jjv.lib import find_ok_nodes
    return find_ok_nodes(F, b, c)
