"""C15  A crash at any point leaves a loadable repo and loses no committed operation.

Clauses decided (DESIGN.md §5 C15): atomic-replace discipline of every durable
store write, and the order in which one command's files become visible.
"""
from jjv.lib import (bodies_with, check_order, cone_calls, find_try_edge, impls_of, name_matches, show, strip,
                     term_calls, term_leaves)
from rules import C14

ENTRY_TRAIT = [
    "jj_lib::op_store::OpStore::write_view", "jj_lib::op_store::OpStore::write_operation",
    "jj_lib::backend::Backend::write_file", "jj_lib::backend::Backend::write_symlink",
    "jj_lib::backend::Backend::write_tree", "jj_lib::backend::Backend::write_commit",
    "jj_lib::backend::Backend::write_copy",
    "jj_lib::index::IndexStore::write_index", "jj_lib::op_heads_store::OpHeadsStore::update_op_heads",
    "jj_lib::working_copy::LockedWorkingCopy::finish",
    "jj_lib::workspace_store::WorkspaceStore::add", "jj_lib::workspace_store::WorkspaceStore::forget",
    "jj_lib::workspace_store::WorkspaceStore::rename",
]
ENTRY_FN = ["jj_lib::stacked_table::TableStore::save_table"]

WRITERS = ("std::fs::write", "re:^std::fs::File::(create|create_new|set_len)$", "std::fs::OpenOptions::open",
           "std::fs::copy", "std::fs::rename", "re:NamedTempFile.*::persist", "std::fs::hard_link",
           "re:^std::os::unix::fs::symlink$")
PERSIST_HELPERS = ("jj_lib::file_util::persist_temp_file", "jj_lib::file_util::persist_content_addressed_temp_file")

# (family, callee) allowed to create/replace a file inside the durable-write cone
ALLOWED_WRITERS = {
    ("jj_lib::file_util::persist_temp_file", "tempfile::NamedTempFile::<F>::persist"): "the atomic-replace helper",
    ("jj_lib::file_util::persist_content_addressed_temp_file", "tempfile::NamedTempFile::<F>::persist"):
        "the atomic-replace helper",
    ("jj_lib::file_util::persist_content_addressed_temp_file", "tempfile::NamedTempFile::<F>::persist_noclobber"):
        "the atomic-replace helper (windows branch)",
    ("jj_lib::lock::unix::FileLock::lock_inner", "std::fs::File::create"):
        "lock file: empty, content never read",
}
EMPTY_MARKERS = {
    "jj_lib::simple_op_heads_store::SimpleOpHeadsStore::add_op_head": "op head marker (empty file named by id)",
    "jj_lib::stacked_table::TableStore::add_head": "table head marker (empty file named by id)",
}


def run(ctx):
    F = ctx.F
    ctx.explanation = (
        "Static who-may-write / ordering rules: (a) inside the call-graph cone of every durable-write entry point "
        "(OpStore::write_view/write_operation, Backend::write_*, IndexStore::write_index, TableStore::save_table, "
        "OpHeadsStore::update_op_heads, LockedWorkingCopy::finish, WorkspaceStore updates) the only calls that can "
        "create or replace a file are the two file_util persist helpers applied to a NamedTempFile created with "
        "new_in in the same function, or fs::write(path, \"\") empty markers; (b) NamedTempFile::persist is called "
        "only by those helpers; (d) Transaction::write orders write_view < write_operation < write_index < "
        "UnpublishedOperation::new, each ?-checked; (e) tree state is saved before checkout state, the operation is "
        "committed before the working copy records it; (f) stale working copies are routed to recovery, which "
        "snapshots before checking out.  A process killed between any two statements therefore never leaves a "
        "truncated store file or an op head naming a missing object.")
    ctx.clauses = ["no in-place store writes (atomic replace only)", "persist only through the sync+rename helpers",
                   "commit ordering view<operation<index<publish", "working-copy state ordering",
                   "stale working copy reaches recovery"]
    ctx.not_decided = ["Git's own object/ref writes (gix)", "working-copy file writes (non-atomic by design; recovery)",
                       "cfg(windows) branches", "system crashes (fsync of directories)"]
    ctx.assumptions = ["rename(2) of a synced temp file is atomic", "crash model = process death"]
    rule_a(ctx)
    rule_b(ctx)
    rule_d(ctx)
    rule_e(ctx)
    rule_f(ctx)


def entry_roots(F):
    roots = []
    for t in ENTRY_TRAIT:
        roots += impls_of(F, t, crates=("jj_lib",))
    roots += [r for r in ENTRY_FN if F.fn(r)]
    return roots


def rule_a(ctx):
    F = ctx.F
    roots = entry_roots(F)
    ctx.anchor("C15.a", "durable-write entry points", roots, 16)
    cone = F.cg.cone(roots, crates=("jj_lib", "jj_core"))
    ctx.info["durable_write_cone_families"] = len(cone)
    ctx.fn_seen(*cone)
    hits = cone_calls(F, cone, WRITERS)
    seen_allowed = 0
    for root, callee in sorted(set(hits)):
        if (root, callee) in ALLOWED_WRITERS:
            seen_allowed += 1
            ctx.ob("C15.a/no-in-place-write", f"{root}->{callee}", True, ALLOWED_WRITERS[(root, callee)])
            continue
        if root in EMPTY_MARKERS and callee == "std::fs::write":
            # content argument must be the constant empty string
            ok = True
            sites = F.family_calls(root, "std::fs::write")
            for c in sites:
                sl = F.slicer(c.body.id)
                content = strip(sl.call_arg(c, 1))
                if not (isinstance(content, tuple) and content[0] == "const" and content[1] == ""):
                    ok = False
            ctx.ob("C15.a/empty-marker", root, ok and len(sites) == 1,
                   EMPTY_MARKERS[root] + ": fs::write(path, \"\")" if ok else
                   "marker file is written with non-constant/non-empty content (not atomic)",
                   where=sites[0].where() if sites else None)
            continue
        sites = F.family_calls(root, callee)
        ctx.ob("C15.a/no-in-place-write", f"{root}->{callee}", False,
               "a store write path creates/replaces a file without the temp-file + atomic rename helper "
               f"(reached from a durable-write entry point via {short_path(F, roots, root)})",
               where=sites[0].where() if sites else None)
    ctx.anchor("C15.a", "atomic-replace helpers reached from the entry points", seen_allowed, 3)
    # every use of the helpers: the temp file was created with NamedTempFile::new_in in the same function
    sites = F.all_calls_to(PERSIST_HELPERS, crates=("jj_lib",))
    ctx.anchor("C15.a", "persist helper call sites in jj-lib", sites, 13)
    in_cone = 0
    for c in sites:
        sl = F.slicer(c.body.id)
        t = sl.call_arg(c, 0)
        ok = any(name_matches(x[1], "tempfile::NamedTempFile::new_in") and x[3] and F.root_of(x[3][0]) == c.body.root
                 for x in term_calls(t))
        only = all(lf[0] in ("param", "const", "fnconst", "static", "cycle", "call") for lf in term_leaves(t))
        if c.body.root in cone:
            in_cone += 1
        ctx.ob("C15.a/temp-file-in-same-dir", f"{c.body.root}->{c.res or c.decl}", ok and only,
               f"temp file = {show(t)[:200]}" if ok else f"persisted file is not a NamedTempFile::new_in of this function: {show(t)[:200]}",
               where=c.where())
    ctx.anchor("C15.a", "persist helper call sites inside the durable-write cone", in_cone, 12)


def short_path(F, roots, dst):
    for r in roots:
        p = F.cg.path(r, dst)
        if p:
            return " > ".join(x.split("::")[-1] if not x.startswith("<") else x for x in p)
    return "?"


def rule_b(ctx):
    F = ctx.F
    sites = F.all_calls_to("re:NamedTempFile.*::persist", crates=("jj_lib",))
    ctx.anchor("C15.b", "NamedTempFile::persist* call sites in jj-lib", sites, 4)
    allowed = set(PERSIST_HELPERS) | {"jj_lib::secure_config::atomic_write"}
    for c in sites:
        ok = c.body.root in allowed
        ctx.ob("C15.b/persist-only-in-helpers", f"{c.body.root}->{c.res or c.decl}", ok,
               "helper" if ok else "NamedTempFile::persist called outside file_util's sync+rename helpers",
               where=c.where())
    # C15.c (informational): sync_data precedes persist in the helpers
    weak = []
    for h in PERSIST_HELPERS:
        for b in F.family_bodies(h):
            syncs = b.calls_to("std::fs::File::sync_data")
            for p in b.calls_to("re:NamedTempFile.*::persist"):
                edges = {e for e in (find_try_edge(F, b, s) for s in syncs) if e is not None}
                if not edges or not b.set_dominated(p.bb, edges):
                    weak.append(h)
    ctx.info["weakened_system_crash_safety"] = sorted(set(weak))


def rule_d(ctx):
    # shared with C14.d: write_view < write_operation < write_index < UnpublishedOperation::new
    C14.rule_d(ctx)
    # shared with C14.a: the new op head exists before any old head is removed (a crash in between must not leave
    # the heads directory empty: the repository would not load)
    C14.rule_a(ctx)


def rule_e(ctx):
    F = ctx.F
    fins = impls_of(F, "jj_lib::working_copy::LockedWorkingCopy::finish", crates=("jj_lib",))
    ctx.anchor("C15.e", "impls of LockedWorkingCopy::finish", fins, 1)
    for fin in fins:
        # TreeState::save runs only when the tree state is dirty: weak order (never after, and ?-checked)
        check_order(ctx, "C15.e/tree-state-before-checkout-state", fin,
                    "jj_lib::local_working_copy::TreeState::save", "jj_lib::local_working_copy::CheckoutState::save",
                    checked=True, weak=True)
    # CLI: the snapshot's operation is stored before the working copy records it
    check_order(ctx, "C15.e/commit-before-wc-finish", "jj_cli::cli_util::WorkspaceCommandHelper::snapshot_working_copy",
                ("re:^jj_cli::cli_util::CommandHelper::maybe_commit_transaction$",
                 "re:^jj_lib::transaction::Transaction::commit$"),
                "re:^jj_lib::workspace::LockedWorkspace::<'_>::finish$|^jj_lib::workspace::LockedWorkspace::finish$", checked=True,
                start="re:^jj_cli::cli_util::start_repo_transaction$")
    check_order(ctx, "C15.e/checkout-before-finish", "jj_lib::workspace::Workspace::check_out",
                "jj_lib::working_copy::LockedWorkingCopy::check_out",
                "re:^jj_lib::workspace::LockedWorkspace::<'_>::finish$|^jj_lib::workspace::LockedWorkspace::finish$", checked=True)


def rule_f(ctx):
    F = ctx.F
    # handle_stale_working_copy maps the stale conditions to StaleWorkingCopy
    fam = F.family_bodies("jj_cli::cli_util::handle_stale_working_copy")
    ctx.anchor("C15.f", "handle_stale_working_copy", fam, 1)
    constructed = set()
    matched = set()
    for b in fam:
        ctx.fn_seen(b.id)
        for blk in b.blocks:
            for s in blk["s"]:
                rv = s["r"]
                if rv["k"] == "agg" and rv.get("adt", "").endswith("SnapshotWorkingCopyError"):
                    constructed.add(rv.get("v"))
                if rv["k"] == "discr" and rv.get("adt", "").endswith("WorkingCopyFreshness"):
                    matched.update(n for _, n in rv.get("vs", []))
    ctx.ob("C15.f/stale-routed-to-recovery", "handle_stale_working_copy", "StaleWorkingCopy" in constructed,
           f"constructs {sorted(constructed)}; matches on WorkingCopyFreshness variants {sorted(matched)}")
    for v in ("WorkingCopyStale", "SiblingOperation"):
        ctx.ob("C15.f/freshness-variant-handled", v, v in matched,
               "variant is matched" if v in matched else "variant no longer exists / is not matched")
    # recovery snapshots (or creates a recovery commit) before updating the stale working copy
    root = "jj_cli::cli_util::CommandHelper::recover_stale_working_copy_impl"
    bs = bodies_with(F, root, "re:update_stale_working_copy")
    ctx.anchor("C15.f", "recover_stale_working_copy_impl calls update_stale_working_copy", bs, 1)
    for b in bs:
        ctx.fn_seen(b.id)
        pre = [c.bb for c in b.calls_to(("re:snapshot_working_copy", "re:create_and_check_out_recovery_commit",
                                         "re:::snapshot$"))]
        for u in b.calls_to("re:update_stale_working_copy"):
            ok = bool(pre) and b.set_dominated(u.bb, set(pre))
            ctx.ob("C15.f/snapshot-before-recovery-checkout", f"{root}", ok,
                   "a snapshot / recovery commit precedes update_stale_working_copy on every path" if ok else
                   "update_stale_working_copy reachable without a prior snapshot", where=u.where())
