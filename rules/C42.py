"""C42  Immutable commits are never rewritten (every rewriting command checks rewritability).

a. every CLI command whose own code (jj-cli families reached by statically resolved calls, not entering another
   cmd_* nor the shared transaction tail) calls a rewrite primitive of jj-lib also calls check_rewritable /
   check_rewritable_expr -- or is in the exception table with a reason
b. the Result of every rewritability check is ?-checked
c. snapshots on an immutable working-copy commit create a new commit on top (snapshot_working_copy,
   finish_transaction)
d. the shared transaction tail rebases descendants with the immutable set taken from the base repo
e. check_rewritable_expr returns Ok only when the intersection with the immutable set is empty; the override flag
   is read only in resolve_immutable_expression
f. the shared location helper compute_commit_location (used by new/rebase/duplicate/revert/split/squash for -A/-B):
   every Ok return passes a ?-checked check_rewritable of the child list, or the edge on which that list is empty --
   for every combination of --destination / --insert-after / --insert-before
g. leaving an empty working-copy commit (MutableRepo::edit -> maybe_abandon_wc_commit) abandons it only if no local
   bookmark or tag refers to it, counting every side of a conflicted target (added_ids), and no other workspace
"""
import re

from jjv.lib import (bodies_with, bool_edges, find_ok_nodes, name_matches, norm, ok_exit_nodes, show, strip, term_calls,
                     term_fields, walk)

CU = "jj_cli::cli_util::"
WCH = CU + "WorkspaceCommandHelper::"
CHECKS = {WCH + "check_rewritable", WCH + "check_rewritable_expr"}
PRIM = ("re:^jj_lib::repo::MutableRepo::(rewrite_commit|record_abandoned_commit|record_abandoned_commit_with_parents|"
        "set_rewritten_commit|set_divergent_rewrite|transform_descendants|transform_descendants_with_options|"
        "transform_commits|rebase_descendants|rebase_descendants_with_options|reparent_descendants)$",
        "re:^jj_lib::rewrite::(rebase_commit|rebase_commit_with_options|move_commits|squash_commits|duplicate_commits|"
        "duplicate_commits_onto_parents)$", "re:^jj_lib::absorb::absorb_hunks$", "re:^jj_lib::fix::fix_files$",
        "re:^jj_lib::rewrite::CommitRewriter::<'repo>::(rebase|reparent|abandon|rebase_with_empty_behavior)$")

EXCEPTIONS = {
    "jj_cli::commands::file::track::cmd_file_track":
        "calls rebase_descendants() after a snapshot that records no rewrite in this transaction (nothing to rebase)",
    "jj_cli::commands::git::push::cmd_git_push":
        "sign-on-push rewrites only commits in (old remote heads | immutable_heads())..new heads, which excludes the "
        "immutable set by construction (C42.a/push-range)",
}


def infra(F):
    out = set(F.find_fns("re:^jj_cli::cli_util::WorkspaceCommandTransaction::<.*>::finish$", roots_only=True))
    out |= set(F.find_fns("re:^jj_cli::cli_util::WorkspaceCommandHelper::(finish_transaction|snapshot_working_copy|"
                          "import_git_head|import_git_refs|maybe_snapshot|maybe_snapshot_impl)$", roots_only=True))
    out |= set(F.find_fns("re:^jj_cli::cli_util::CommandHelper::(workspace_helper|workspace_helper_with_stats|"
                          "workspace_helper_no_snapshot|recover_stale_working_copy|recover_stale_working_copy_impl|"
                          "for_workable_repo|maybe_commit_transaction)$", roots_only=True))
    out |= set(F.find_fns("re:^jj_cli::cli_util::(update_stale_working_copy|handle_stale_working_copy)$", roots_only=True))
    return out


def run(ctx):
    F = ctx.F
    ctx.explanation = (
        "Must-be-paired rule over the command set: command entry points are the cmd_* functions of jj_cli::commands; "
        "for each, the jj-cli families reachable by statically resolved calls (cut at other cmd_* functions and at the "
        "shared transaction tail) are scanned for call sites of jj-lib rewrite primitives; a command with such a site "
        "must also reach check_rewritable/check_rewritable_expr or be a tabled exception; every check result is ?-checked; snapshot_working_copy and finish_transaction create a new commit "
        "when @ is immutable; the transaction tail rebases with the immutable set; check_rewritable_expr returns Ok "
        "only on the empty-intersection edge and --ignore-immutable is consulted only when resolving the set.")
    ctx.clauses = ["every rewriting command checks rewritability", "check results are enforced",
                   "immutable working-copy commits get a child instead of being rewritten",
                   "generic descendant rebase excludes the immutable set", "the check and its override are sound"]
    ctx.not_decided = ["that each command passes exactly the commits it is going to rewrite to the check",
                       "commands in extensions/other crates"]
    ctx.assumptions = ["command cones follow statically resolved calls only (dyn dispatch through template/revset "
                       "function tables is not a path to rewrite primitives from command code)"]
    rule_a(ctx)
    rule_c(ctx)
    rule_d(ctx)
    rule_e(ctx)
    rule_f(ctx)
    rule_g(ctx)


def rule_a(ctx):
    F = ctx.F
    INFRA = infra(F)
    ctx.anchor("C42.a", "shared transaction tail functions (cut set)", INFRA, 12)
    sites = F.all_calls_to(PRIM, crates=("jj_cli",))
    ctx.anchor("C42.a", "rewrite primitive call sites in jj-cli", sites, 50)
    by = {}
    for c in sites:
        by.setdefault(c.body.root, set()).add((c.res or c.decl).split("::")[-1])
    cmds = F.find_fns("re:^jj_cli::commands::.*::cmd_[a-z_0-9]+$", roots_only=True)
    ctx.anchor("C42.a", "command entry points", cmds, 120)
    n_checked = 0
    for c in cmds:
        cone = F.cg.cone([c], cut=INFRA | (set(cmds) - {c}), direct_only=True, crates=("jj_cli",))
        prim = set()
        for r in cone:
            prim |= by.get(r, set())
        if not prim:
            continue
        ctx.fn_seen(c)
        # dispatchers (cmd_git, cmd_file, ...) only forward to other cmd_*; their own code has no primitive
        checked = bool(CHECKS & set(cone))
        if checked:
            n_checked += 1
            ctx.ob("C42.a/rewriting-command-checks", c, True, f"rewrites via {sorted(prim)[:4]}; checks rewritability")
        elif c in EXCEPTIONS:
            ctx.ob("C42.a/rewriting-command-checks", c, True, "exception: " + EXCEPTIONS[c])
        else:
            w = [s for s in sites if s.body.root in cone]
            ctx.ob("C42.a/rewriting-command-checks", c, False,
                   f"the command rewrites commits ({sorted(prim)[:4]}) without check_rewritable/check_rewritable_expr",
                   where=w[0].where() if w else None)
    ctx.anchor("C42.a", "rewriting commands that check", n_checked, 22)
    # exception: git push signs only commits outside the immutable heads range
    fn = "jj_cli::commands::git::push::ready_to_push_revset_expression"
    b = F.body(fn)
    ok = False
    if b is not None:
        names = [x.res or x.decl or "" for x in b.calls if not x.cleanup]
        ok = any(n.endswith("immutable_heads_expression") for n in names) and any(n.endswith("::range") for n in names) \
            and any(n.endswith("::union") for n in names)
    ctx.ob("C42.a/push-range-excludes-immutable", fn, ok, "(old heads | immutable_heads())..new heads" if ok else
           "the push/sign range no longer excludes the immutable heads")
    # b. the result of every rewritability check is acted upon (an immutable commit aborts the command)
    n = 0
    for c in F.all_calls_to(tuple(CHECKS), crates=("jj_cli",)):
        if c.decl == "futures::Future::poll" or c.body.root in CHECKS:
            continue
        n += 1
        oks = find_ok_nodes(F, c.body, c)
        ctx.ob("C42.b/check-result-enforced", f"{c.body.root}", bool(oks), "?-checked" if oks else
               "the Result of check_rewritable is dropped: an immutable commit does not stop the command", where=c.where())
    ctx.anchor("C42.b", "check_rewritable call sites", n, 22)


def rule_c(ctx):
    F = ctx.F
    root = WCH + "snapshot_working_copy"
    RW = "jj_lib::repo::MutableRepo::rewrite_commit"
    NEW = "jj_lib::repo::MutableRepo::new_commit"
    found = False
    for b in F.family_bodies(root):
        rws = [c for c in b.calls if not c.cleanup and (c.res or "") == RW]
        if not rws:
            continue
        found = True
        ctx.fn_seen(b.id)
        sl = F.slicer(b.id)
        # the bool deciding: derived from resolve_immutable_expression(..).intersection(..)...is_empty()
        edges_mut, edges_imm = set(), set()
        for bb, t in b.switches():
            from jjv.lib import op_place
            p = op_place(t["o"])
            if p is None or b.locals[p[0]] != "bool":
                continue
            term = sl.place(p, at=bb)
            names = {x[1] for x in term_calls(term)}
            if any(n.endswith("resolve_immutable_expression") for n in names) and any(n.endswith("::intersection") for n in names):
                neg = 0
                tt = term
                while True:
                    tt = strip(tt)
                    if isinstance(tt, tuple) and tt[0] == "un" and tt[2] == "Not":
                        neg ^= 1
                        tt = tt[1]
                    else:
                        break
                e_true, e_false = b.edge_node(bb, "else"), b.edge_node(bb, 0)
                # operand value V = (!)^neg is_empty(immutable ∩ {@});  @ is mutable  <=>  is_empty
                if neg:
                    edges_imm.add(e_true)
                    edges_mut.add(e_false)
                else:
                    edges_mut.add(e_true)
                    edges_imm.add(e_false)
        news = [c for c in b.calls if not c.cleanup and (c.res or "") == NEW]
        ok = bool(edges_mut) and all(b.set_dominated(c.bb, edges_mut) for c in rws) and \
            bool(news) and any(b.set_dominated(c.bb, edges_imm) for c in news)
        ctx.ob("C42.c/snapshot-on-immutable-creates-child", root, ok,
               "rewrite_commit(@) only on the `@ is mutable` edge; the immutable edge calls new_commit" if ok else
               "a snapshot can rewrite an immutable working-copy commit", where=rws[0].where())
    ctx.anchor("C42.c", "rewrite_commit in snapshot_working_copy", 1 if found else 0, 1)
    # finish_transaction: new commit on top when the new @ is immutable
    root = WCH + "finish_transaction"
    okf = False
    for b in F.family_bodies(root):
        names = [c.res or c.decl or "" for c in b.calls if not c.cleanup]
        if any(n.endswith("resolve_immutable_expression") or n.endswith("immutable_expression") for n in names) and NEW in names:
            okf = True
            ctx.fn_seen(b.id)
    ctx.ob("C42.c/finish-keeps-wc-mutable", root, okf, "finish_transaction creates a new working-copy commit when @ "
           "became immutable" if okf else "finish_transaction no longer moves @ off an immutable commit")


def rule_d(ctx):
    F = ctx.F
    # generic rebase in the transaction tail uses the immutable set
    sites = F.all_calls_to("re:^jj_lib::repo::MutableRepo::rebase_descendants_with_options$", crates=("jj_cli",))
    helper = [c for c in sites if c.body.root.startswith(CU)]
    ctx.anchor("C42.d", "rebase_descendants_with_options in cli_util", helper, 1)
    for c in helper:
        sl = F.slicer(c.body.id)
        t = sl.call_arg(c, 1)
        names = {x[1] for x in term_calls(t)}
        ok = any(n.endswith("resolve_immutable_expression") or n.endswith("immutable_expression") for n in names) or \
            any(l[0] == "param" and "immutable" in (l[2] or "") for l in __import__("jjv.lib", fromlist=["term_leaves"]).term_leaves(t))
        ctx.ob("C42.d/tail-rebase-excludes-immutable", c.body.root, ok, f"immutable set = {show(t)[:120]}" if ok else
               f"the shared rebase of descendants is not given the immutable set: {show(t)[:120]}", where=c.where())
    # the no-immutable-set variants may only be called from tabled command families
    allowed = {
        "jj_cli::commands::diffedit::cmd_diffedit", "jj_cli::commands::restore::cmd_restore",
        "jj_cli::commands::squash::cmd_squash", "jj_cli::commands::new::cmd_new",
        "jj_cli::commands::file::track::cmd_file_track", "jj_cli::commands::file::untrack::cmd_file_untrack",
        WCH + "import_git_head", WCH + "snapshot_working_copy", WCH + "import_git_refs",
    }
    plain = F.all_calls_to(("jj_lib::repo::MutableRepo::rebase_descendants", "jj_lib::repo::MutableRepo::reparent_descendants"),
                           crates=("jj_cli",))
    for c in plain:
        ok = c.body.root in allowed
        ctx.ob("C42.d/plain-rebase-callers", c.body.root, ok,
               "tabled: the command checked rewritability of the roots (or only @, kept mutable by C42.c, is rewritten)" if ok
               else "rebase_descendants()/reparent_descendants() (which ignore the immutable set) called from a new place",
               where=c.where())
    ctx.anchor("C42.d", "plain rebase/reparent call sites in jj-cli", plain, 6)


def rule_e(ctx):
    F = ctx.F
    root = WCH + "check_rewritable_expr"
    done = False
    for b in F.family_bodies(root):
        okn, errn, other = ok_exit_nodes(F, b)
        nexts = [c for c in b.calls if not c.cleanup and name_matches(c.res or c.decl or "", "re:try_next$|::next$")]
        inter = [c for c in b.calls if not c.cleanup and name_matches(c.res or c.decl or "", "re:::intersection$")]
        if not okn or not inter:
            continue
        done = True
        ctx.fn_seen(b.id)
        sl = F.slicer(b.id)
        # Ok(()) only when the stream of (immutable ∩ to_rewrite) yielded None
        good = False
        for bb, t in b.switches():
            ds = b.discr_source(bb)
            if ds and ds[1] == "std::option::Option":
                term = sl.place(ds[0], at=bb)
                names = {x[1] for x in term_calls(term)}
                if any(n.endswith("::intersection") for n in names) and any("resolve_immutable_expression" in n for n in names):
                    e = b.variant_edge(bb, "None")
                    if e is not None and all(b.set_dominated(x, {e}) for x in okn):
                        good = True
        ctx.ob("C42.e/ok-only-on-empty-intersection", root, good,
               "Ok(()) is returned only when immutable ∩ to_rewrite yields no commit" if good else
               "check_rewritable_expr can return Ok although the intersection with the immutable set is non-empty")
        it = sl.call_arg(inter[0], 1) if inter else None
    ctx.anchor("C42.e", "check_rewritable_expr body", 1 if done else 0, 1)
    rows = F.q("SELECT DISTINCT root FROM field_access WHERE field='ignore_immutable'")
    readers = sorted(r["root"] for r in rows)
    ok = all(r.endswith("resolve_immutable_expression") or "clap" in r or r.startswith("<jj_cli::cli_util::GlobalArgs")
             or "GlobalArgs" in r for r in readers) and any(r.endswith("resolve_immutable_expression") for r in readers)
    ctx.ob("C42.e/override-read-in-one-place", "GlobalArgs.ignore_immutable", ok, f"read in {readers}")


def rule_f(ctx):
    F = ctx.F
    root = CU + "compute_commit_location"
    CHK = WCH + "check_rewritable"
    bs = bodies_with(F, root, CHK)
    if not ctx.anchor("C42.f", root, bs, 1):
        return
    b = bs[0]
    ctx.fn_seen(b.id)
    sl = F.slicer(b.id)
    checks = [c for c in b.calls_to(CHK) if c.decl != "futures::Future::poll"]
    oks = set()
    for c in checks:
        oks |= find_ok_nodes(F, b, c)
    # the value returned as children: component 1 of the Ok tuple
    okn, _, _ = ok_exit_nodes(F, b)
    empties = set()
    for c in b.calls:
        if c.cleanup or not name_matches(c.res or c.decl or "", "re:Vec::<.*>::is_empty$"):
            continue
        t = strip(sl.call_arg(c, 0))
        if isinstance(t, tuple) and t[0] == "field" and t[2] == "(tuple)" and str(t[3]) == "1":
            tr, fa = bool_edges(F, b, c)
            empties |= set(tr)
    bad = None
    for x in okn:
        p = b.path_avoiding([0], [x], oks | empties)
        if p is not None:
            bad = p
    ctx.ob("C42.f/children-checked-on-every-path", root, bool(oks) and bool(okn) and bad is None,
           "every Ok return passes check_rewritable(new_child_ids)? or the `no children` edge" if oks and okn and bad is None else
           f"compute_commit_location can return children to be reparented without having checked that they are rewritable "
           f"(some flag combination skips the check): {b.show_path(bad)[-5:] if bad else ''}",
           where=checks[0].where() if checks else None)
    # what is checked is a list that becomes the returned children
    for c in checks:
        t = sl.call_arg(c, 1)
        flows = False
        tt = t
        for w in walk(t):
            if w[0] == "field" and w[2] == "(tuple)" and str(w[3]) == "1":
                flows = True
        # or: an arm-local value that is stored as component 1 of the result
        if not flows:
            argn = repr(norm(strip(t, extra=("re:slice.*::iter$",))))
            for x in okn:
                pass
            rt = None
            for i, blk in enumerate(b.blocks):
                if blk.get("c"):
                    continue
                for st in blk["s"]:
                    rv = st["r"]
                    if rv["k"] == "agg" and len(rv.get("o", [])) == 2 and (rv.get("ak") == "tuple" or rv.get("adt") is None):
                        o1 = repr(norm(sl.operand(rv["o"][1], at=i)))
                        if argn and (argn in o1 or o1 in argn):
                            flows = True
        ctx.ob("C42.f/checked-list-is-the-children", f"{root}@{c.t.get('ln', 0) if hasattr(c, 't') else c.bb}", flows,
               "the checked ids are the list returned as new children" if flows else
               f"check_rewritable is applied to {show(t)[:80]}, which is not the list of children returned", where=c.where())


def rule_g(ctx):
    F = ctx.F
    root = "jj_lib::repo::MutableRepo::maybe_abandon_wc_commit"
    fam = F.family_bodies(root)
    if not ctx.anchor("C42.g", root, fam, 2):
        return
    ab = [b for b in fam if b.calls_to("jj_lib::repo::MutableRepo::record_abandoned_commit")]
    if not ctx.anchor("C42.g", "record_abandoned_commit in maybe_abandon_wc_commit", ab, 1):
        return
    ctx.fn_seen(*[b.id for b in fam])
    # the `is_commit_referenced` closure family: which accessor is applied to bookmark and tag targets
    per = {}
    for b in fam:
        for c in b.calls:
            if c.cleanup:
                continue
            n = c.res or c.decl or ""
            if n.startswith("jj_lib::op_store::RefTarget::"):
                per.setdefault(n.split("::")[-1], set()).add(b.id)
    names = {c.res or c.decl or "" for b in fam for c in b.calls if not c.cleanup}
    has_b = "jj_lib::view::View::local_bookmarks" in names
    has_t = "jj_lib::view::View::local_tags" in names
    has_w = "jj_lib::view::View::wc_commit_ids" in names
    narrowing = sorted(set(per) & {"as_normal", "as_resolved", "is_present", "is_absent", "removed_ids"})
    n_added = len(per.get("added_ids", ()))
    ok = has_b and has_t and has_w and n_added >= 2 and not narrowing
    ctx.ob("C42.g/referenced-commit-not-auto-abandoned", root, ok,
           "is_commit_referenced = other workspaces' @ ∪ added_ids of every local bookmark ∪ added_ids of every local tag" if ok else
           f"the auto-abandon of an empty working-copy commit does not look at every id of bookmark/tag targets "
           f"(bookmarks={has_b}, tags={has_t}, other workspaces={has_w}, added_ids sites={n_added}, narrowing accessors={narrowing}): "
           f"a commit named by a conflicted tag/bookmark (immutable via tags()/bookmarks()) can be abandoned and hidden")
    # the abandon is control-dependent on !is_commit_referenced
    b = ab[0]
    sl = F.slicer(b.id)
    ra = b.calls_to("jj_lib::repo::MutableRepo::record_abandoned_commit")[0]
    guard = set()
    for c in b.calls:
        if c.cleanup:
            continue
        n = c.res or c.decl or ""
        if n.startswith("closure:") or "maybe_abandon_wc_commit::{closure" in n:
            tr, fa = bool_edges(F, b, c)
            guard |= set(fa)
    okg = bool(guard) and b.set_dominated(ra.bb, guard)
    ctx.ob("C42.g/abandon-only-when-unreferenced", root, okg, "record_abandoned_commit only on the !is_commit_referenced edge" if okg
           else "record_abandoned_commit is reachable without the is_commit_referenced test being false", where=ra.where())
