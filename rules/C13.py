"""C13  Concurrent operations are merged without losing work (coverage of the view).

a. every component of op_store::View / RemoteView is read from BOTH `base` and `other` in merge_view, through the
   same accessor, in the (base, other) role order
b. every component has a field-specific mutation of self.view in the merge cone
c. index merged and heads normalized before merge_view; merge_operation records the other op as parent and merges
   (base repo, other repo) in that order
d. rewrites are recorded for both sides on the default index path
"""
from jjv.lib import (READ_KINDS, WRITE_KINDS, bool_edges, ok_exit_nodes, bodies_with, check_order, fields_touched, find_ok_nodes, name_matches,
                     norm, show, strip, term_calls, term_leaves)

MR = "jj_lib::repo::MutableRepo::"
SV = "jj_lib::op_store::View"
RV = "jj_lib::op_store::RemoteView"
ADTS = (SV, RV)

# remote_views is covered through its two components
COMPONENTS = [(SV, "wc_commit_ids"), (SV, "head_ids"), (SV, "local_bookmarks"), (SV, "local_tags"),
              (SV, "git_refs"), (SV, "git_heads"), (RV, "bookmarks"), (RV, "tags")]


def run(ctx):
    F = ctx.F
    ctx.explanation = (
        "Field-coverage rules over MIR: the fields of op_store::View and RemoteView are enumerated from the type; for "
        "each component, MutableRepo::merge_view must contain an accessor call on parameter `base` and one on "
        "parameter `other` whose callee (cone depth 2) reads that field, feeding one diff_* call in (base, other) "
        "order with the same accessor on both sides; and the merge cone must contain a View method that mutates that "
        "field specifically (set_view does not count).  MutableRepo::merge merges both indexes and normalizes heads "
        "before merge_view; Transaction::merge_operation pushes other_op onto parent_ops and merges (base, other) in "
        "role order; record_rewrites runs for (base, own) and (base, other).")
    ctx.clauses = ["every view component is read from base and other", "roles base/other are not swapped",
                   "every component is written into the merged view", "index/heads prepared before the view merge",
                   "reconciled operation has both parents", "rewrites recorded for both sides"]
    ctx.not_decided = ["per-ref merge results (C12)", "rewrite detection by change id (value-level)"]
    ctx.assumptions = ["accessor summaries are computed over a call-graph cone of depth 2"]
    rule_fields_exist(ctx)
    rule_a(ctx)
    rule_b(ctx)
    rule_c(ctx)
    rule_d(ctx)
    rule_e(ctx)


def rule_fields_exist(ctx):
    F = ctx.F
    have = {(r["adt"], r["name"]) for r in F.q("SELECT adt, name FROM adt_field WHERE adt IN (?,?)", ADTS)}
    expected = set(COMPONENTS) | {(SV, "remote_views")}
    extra = have - expected
    ctx.ob("C13/component-table-complete", "op_store::View+RemoteView", not extra and expected <= have,
           f"{len(have)} fields, all tabled" if not extra else
           f"the view gained fields the merge rules do not know about: {sorted(extra)}")


def merge_view_body(ctx):
    F = ctx.F
    bs = bodies_with(F, MR + "merge_view", MR + "merge_wc_commit")
    if not ctx.anchor("C13", "MutableRepo::merge_view body", bs, 1):
        return None
    ctx.fn_seen(bs[0].id)
    return bs[0]


def _param_names(t):
    return {l[2] for l in term_leaves(t) if l[0] == "param"}


def rule_a(ctx):
    F = ctx.F
    b = merge_view_body(ctx)
    if b is None:
        return
    sl = F.slicer(b.id)
    summ = {}
    reads = {"base": set(), "other": set()}
    samples = {}
    for c in b.calls:
        if c.cleanup or not c.args:
            continue
        name = c.res or c.decl
        if not name or not name.startswith("jj_lib::view::View::"):
            continue
        who = _param_names(sl.call_arg(c, 0))
        if len(who) != 1 or not (who <= {"base", "other"}):
            continue
        if name not in summ:
            summ[name] = fields_touched(F, name, ADTS, READ_KINDS, depth=2)
        w = next(iter(who))
        reads[w] |= summ[name]
        for f in summ[name]:
            samples.setdefault((w, f), name)
    for comp in COMPONENTS:
        for w in ("base", "other"):
            ok = comp in reads[w]
            ctx.ob("C13.a/component-read", f"{w}|{comp[0].split('::')[-1]}.{comp[1]}", ok,
                   f"read via {samples.get((w, comp), '?').split('::')[-1]}({w})" if ok else
                   f"merge_view never reads {comp[1]} from `{w}`: concurrent changes to it are dropped")
    # role order at the diff_* helpers and the same accessor on both sides
    diffs = [c for c in b.calls if not c.cleanup and name_matches(c.res or c.decl or "", "re:^jj_lib::(refs|repo)::diff_named_")]
    ctx.anchor("C13.a", "diff_named_* calls in merge_view", diffs, 7)
    for i, c in enumerate(diffs):
        a0, a1 = sl.call_arg(c, 0), sl.call_arg(c, 1)
        n0 = [x[1] for x in term_calls(a0) if x[1].startswith("jj_lib::view::View::")]
        n1 = [x[1] for x in term_calls(a1) if x[1].startswith("jj_lib::view::View::")]
        ok = _param_names(a0) == {"base"} and _param_names(a1) == {"other"} and n0 == n1 and bool(n0)
        ctx.ob("C13.a/diff-roles", f"merge_view|{(n0 or ['?'])[0].split('::')[-1]}#{i}", ok,
               f"{(c.res or c.decl).split('::')[-1]}(base.{n0[0].split('::')[-1]}(), other.{n1[0].split('::')[-1]}())" if ok else
               f"diff helper called with swapped/mismatched sides: {show(a0)[:80]} / {show(a1)[:80]}", where=c.where())
    # heads: other.heads().difference(base.heads()) -> add_head
    for c in b.calls_to("jj_lib::view::View::add_head"):
        t = sl.call_arg(c, 1)
        d = [x for x in term_calls(t) if name_matches(x[1], "re:HashSet.*::difference$")]
        ok = bool(d) and _param_names(d[0][2][0]) == {"other"} and _param_names(d[0][2][1]) == {"base"}
        ctx.ob("C13.a/added-heads-roles", "merge_view|add_head", ok,
               "add_head for other.heads() - base.heads()" if ok else f"added heads computed from {show(t)[:120]}",
               where=c.where())


def rule_b(ctx):
    F = ctx.F
    b = merge_view_body(ctx)
    if b is None:
        return
    # View methods reachable from merge_view (depth 3) and what each mutates
    cone = F.cg.cone([MR + "merge_view"], crates=("jj_lib",), max_depth=3)
    writers = {}
    for r in cone:
        if r.startswith("jj_lib::view::View::") and r != "jj_lib::view::View::set_view":
            fs = fields_touched(F, r, ADTS, WRITE_KINDS, depth=0)
            for f in fs:
                writers.setdefault(f, []).append(r)
    for comp in COMPONENTS:
        ws = writers.get(comp, [])
        ctx.ob("C13.b/component-written", f"{comp[0].split('::')[-1]}.{comp[1]}", bool(ws),
               f"mutated via {[w.split('::')[-1] for w in ws][:4]}" if ws else
               f"nothing in the merge cone writes {comp[1]} of the merged view")
    # the entries of each diff flow into a call whose cone writes the very component that was diffed
    sl = F.slicer(b.id)
    diffs = [c for c in b.calls if not c.cleanup and name_matches(c.res or c.decl or "", "re:^jj_lib::(refs|repo)::diff_named_")]
    wcache = {}
    for i, dc in enumerate(diffs):
        acc = [x[1] for x in term_calls(sl.call_arg(dc, 1)) if x[1].startswith("jj_lib::view::View::")]
        comp = fields_touched(F, acc[0], ADTS, READ_KINDS, depth=2) - {(SV, "remote_views")} if acc else set()
        sink = None
        for c2 in b.calls:
            if c2.cleanup or c2 is dc or not (c2.res or c2.decl or "").startswith("jj_lib::repo::MutableRepo::"):
                continue
            uses = any(x[3] and x[3][0] == b.id and x[3][1] == dc.bb for a in range(len(c2.args))
                       for x in term_calls(sl.call_arg(c2, a)))
            if not uses:
                continue
            name = c2.res or c2.decl
            if name not in wcache:
                wcache[name] = fields_touched(F, name, ADTS, WRITE_KINDS, depth=3)
            if wcache[name] & comp:
                sink = name
        ctx.ob("C13.b/diff-entries-applied", f"merge_view|{(acc or ['?'])[0].split('::')[-1]}#{i}", sink is not None,
               f"entries of the {sorted(f for _, f in comp)} diff are applied by {sink.split('::')[-1]}" if sink else
               f"the diff of {sorted(f for _, f in comp)} is computed but never applied to the merged view", where=dc.where())

    helpers = [c for c in b.calls if not c.cleanup and name_matches(c.res or c.decl or "", "re:^jj_lib::repo::MutableRepo::merge_(wc_commit|local_bookmark|local_tag|git_ref|remote_bookmark|remote_tag)$")]
    ctx.anchor("C13.b", "merge_* helper calls", helpers, 6)
    for c in helpers:
        tb, to = sl.call_arg(c, 2), sl.call_arg(c, 3)
        # both come out of the same diff tuple: (.., (base, other)) -> tuple fields 0 and 1
        def idx(t):
            from jjv.lib import walk
            for w in walk(t):
                if w[0] == "field" and w[2] == "(tuple)":
                    return w[3]
            return None
        ok = idx(tb) == "0" and idx(to) == "1"
        ctx.ob("C13.b/helper-roles", (c.res or c.decl).split("::")[-1], ok,
               "called with (base side, other side) of the diff entry" if ok else
               f"base/other sides swapped or not from the diff entry: {show(tb)[:80]} / {show(to)[:80]}", where=c.where())


def rule_c(ctx):
    F = ctx.F
    check_order(ctx, "C13.c/index-merged-before-view", MR + "merge", "jj_lib::index::MutableIndex::merge_in", MR + "merge_view")
    check_order(ctx, "C13.c/heads-normalized-before-view", MR + "merge", MR + "normalize_heads", MR + "merge_view")
    for b in bodies_with(F, MR + "merge", "jj_lib::index::MutableIndex::merge_in"):
        n = [c for c in b.calls_to("jj_lib::index::MutableIndex::merge_in")]
        sl = F.slicer(b.id)
        who = set()
        for c in n:
            who |= _param_names(sl.call_arg(c, 1))
        ctx.ob("C13.c/both-indexes-merged", MR + "merge", {"base_repo", "other_repo"} <= who,
               f"merge_in called for {sorted(who)}")
        for c in b.calls_to(MR + "merge_view"):
            if c.decl == "futures::Future::poll":
                continue
            ok = _param_names(sl.call_arg(c, 1)) == {"base_repo"} and _param_names(sl.call_arg(c, 2)) == {"other_repo"}
            ctx.ob("C13.c/merge-view-roles", MR + "merge", ok, "merge_view(base_repo.view, other_repo.view)" if ok else
                   "merge_view called with swapped base/other", where=c.where())
    root = "jj_lib::transaction::Transaction::merge_operation"
    for b in bodies_with(F, root, MR + "merge"):
        ctx.fn_seen(b.id)
        sl = F.slicer(b.id)
        pushes = [c for c in b.calls if not c.cleanup and name_matches(c.res or c.decl or "", "re:Vec.*::push$")]
        okp = any("other_op" in _param_names(sl.call_arg(c, 1)) and
                  any(w[0] == "field" and w[3] == "parent_ops" for w in _walk(sl.call_arg(c, 0))) for c in pushes)
        ctx.ob("C13.c/other-op-becomes-parent", root, okp, "parent_ops.push(other_op)" if okp else
               "the merged operation does not get the other operation as a parent")
        for c in b.calls_to(MR + "merge"):
            if c.decl == "futures::Future::poll":
                continue
            t1, t2 = sl.call_arg(c, 1), sl.call_arg(c, 2)
            ok = "base_op" in _param_names(t1) and "other_op" not in _param_names(t1) and \
                "other_op" in _param_names(t2) and "base_op" not in _param_names(t2)
            ctx.ob("C13.c/merge-operation-roles", root, ok, "merge(load_at(base_op), load_at(other_op))" if ok else
                   f"base/other repos swapped: {show(t1)[:80]} / {show(t2)[:80]}", where=c.where())


def rule_e(ctx):
    """merge_operations: the base of each 3-way operation merge is the closest common ancestor of what the transaction has
    merged so far (tx.parent_ops()) and the operation being merged next."""
    F = ctx.F
    root = "jj_lib::repo::RepoLoader::merge_operations"
    TMO = "jj_lib::transaction::Transaction::merge_operation"
    CCA = "jj_lib::op_walk::closest_common_ancestors"
    bs = bodies_with(F, root, TMO)
    if not ctx.anchor("C13.e", "RepoLoader::merge_operations body calling Transaction::merge_operation", bs, 1):
        return
    b = bs[0]
    ctx.fn_seen(b.id)
    sl = F.slicer(b.id)
    mos = [c for c in b.calls_to(TMO) if c.decl != "futures::Future::poll"]
    ccas = [c for c in b.calls_to(CCA) if c.decl != "futures::Future::poll"]
    if not ctx.anchor("C13.e", "closest_common_ancestors calls in merge_operations", ccas, 1):
        return
    for c in ccas:
        a0 = {x[1] for x in term_calls(sl.call_arg(c, 0))}
        a1 = {x[1] for x in term_calls(sl.call_arg(c, 1))}
        ok = any(n.endswith("Transaction::parent_ops") for n in a0) and not any(n.endswith("::base_repo") for n in a0) \
            and any(n.endswith("::index") or n.endswith("::get") for n in a1)
        ctx.ob("C13.e/ancestor-of-merged-so-far-and-next", root, ok,
               "closest_common_ancestors(tx.parent_ops(), [operations[index]])" if ok else
               f"common ancestors are not computed between the operations merged so far (tx.parent_ops()) and the next one: "
               f"{show(sl.call_arg(c, 0))[:100]}", where=c.where())
    for c in mos:
        t1 = sl.call_arg(c, 1)
        names = {x[1] for x in term_calls(t1)}
        ok = CCA in names
        ctx.ob("C13.e/merge-base-is-the-common-ancestor", root, ok,
               "merge_operation(base = (merge of) closest common ancestors, other_op)" if ok else
               f"the base passed to merge_operation is not derived from closest_common_ancestors: {show(t1)[:120]}",
               where=c.where())
        t0, t2 = sl.call_arg(c, 0), sl.call_arg(c, 2)
        # cache key agrees with the computation
    ents = [c for c in b.calls if not c.cleanup and name_matches(c.res or c.decl or "", "re:HashMap::<.*>::entry$")]
    for c in ents:
        k = {x[1] for x in term_calls(sl.call_arg(c, 1))}
        ok = any(n.endswith("Transaction::parent_ops") for n in k) and any(n.endswith("Operation::id") for n in k)
        ctx.ob("C13.e/ancestor-cache-keyed-by-its-inputs", root, ok,
               "cache key = (ids of tx.parent_ops(), other_op.id())" if ok else
               "the closest_common_ancestors cache key does not contain both inputs of the computation: a hit can return "
               "the ancestors of a different pair", where=c.where())
    ctx.anchor("C13.e", "ancestor cache entry() calls", ents, 1)


def _walk(t):
    from jjv.lib import walk
    return walk(t)


def rule_d(ctx):
    F = ctx.F
    b = merge_view_body(ctx)
    if b is None:
        return
    sl = F.slicer(b.id)
    rr = [c for c in b.calls_to(MR + "record_rewrites") if c.decl != "futures::Future::poll"]
    ctx.anchor("C13.d", "record_rewrites calls", rr, 2)
    sides = set()
    for c in rr:
        old, new = sl.call_arg(c, 1), sl.call_arg(c, 2)
        po, pn = _param_names(old), _param_names(new)
        if po == {"base"}:
            sides.add("other" if pn == {"other"} else ("own" if "self" in pn and "other" not in pn and "base" not in pn else "?"))
        else:
            sides.add("bad-old")
    ctx.ob("C13.d/rewrites-recorded-both-sides", MR + "merge_view", sides == {"own", "other"},
           "record_rewrites(base, own) and record_rewrites(base, other)" if sides == {"own", "other"} else
           f"rewrites are not recorded for both sides against the base: {sorted(sides)}")
    # each ?-checked
    for c in rr:
        ctx.ob("C13.d/record-rewrites-checked", f"merge_view#{rr.index(c)}", bool(find_ok_nodes(F, b, c)), "?-checked")
    # unconditional on the default-index branch: every path from the `is_backed_by_default_index() == true` edge to the
    # added-heads step passes a successful record_rewrites for each side; the other branch removes base\other heads
    gate = b.calls_to(MR + "is_backed_by_default_index")
    adds = [c for c in b.calls if not c.cleanup and name_matches(c.res or c.decl or "", "re:view::View::add_head$")]
    if not ctx.anchor("C13.d", "is_backed_by_default_index gate / add_head in merge_view", min(len(gate), len(adds)), 1):
        return
    tr, fa = bool_edges(F, b, gate[0])
    oks, _, _ = ok_exit_nodes(F, b)
    dsts = [a.bb for a in adds] + list(oks)
    for side in ("own", "other"):
        calls = []
        for c in rr:
            pn = _param_names(sl.call_arg(c, 2))
            s_ = "other" if pn == {"other"} else ("own" if "self" in pn and "other" not in pn and "base" not in pn else "?")
            if s_ == side:
                calls.append(c)
        doms = set()
        for c in calls:
            doms |= find_ok_nodes(F, b, c)
        p = b.path_avoiding(tr, dsts, doms) if tr else [0]
        ctx.ob("C13.d/rewrites-recorded-unconditionally", f"merge_view|{side}", bool(doms) and p is None,
               f"every default-index path to the head merge passes record_rewrites(base, {side})?" if doms and p is None else
               f"record_rewrites(base, {side}) can be skipped on the default-index path: {b.show_path(p)[:6] if p else ''} - "
               f"rewrites made on that side are then not applied to the other side's descendants/refs")
    rm = [c for c in b.calls if not c.cleanup and name_matches(c.res or c.decl or "", "re:view::View::remove_head$")]
    ok = bool(rm) and bool(fa) and all(b.set_dominated(c.bb, set(fa)) for c in rm)
    srcs = set()
    for c in rm:
        for x in term_calls(sl.call_arg(c, 1)):
            if x[1].endswith("::difference"):
                srcs.add(tuple(sorted(_param_names(x[2][0]))) + ("-",) + tuple(sorted(_param_names(x[2][1]))))
    ok = ok and srcs == {("base", "-", "other")}
    ctx.ob("C13.d/custom-index-removes-heads-removed-by-other", MR + "merge_view", ok,
           "else-branch: remove_head(h) for h in base.heads() - other.heads()" if ok else
           f"without the default index, heads removed by the other operation are not removed ({sorted(srcs)})")
