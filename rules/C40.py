"""C40  Working-copy changes are never lost by commands (snapshot-before-mutation discipline).

a. who may mutate a working copy: frozen table of callers of LockedWorkingCopy::{check_out,reset,recover,
   set_sparse_patterns} and Workspace::check_out
b. concurrent-change guard: a checkout / working-copy mutation proceeds only if the tree recorded in the working copy
   is the one the command expects
c. every command helper obtained through workspace_helper* has snapshotted (or recovered) the working copy unless
   the working copy is not writable (--ignore-working-copy / --at-op)
d. a helper that could not snapshot can never update the working copy
e. the no-snapshot helper is used only by commands that neither mutate a working copy nor start a transaction
f. snapshot is committed before the working copy records it; recovery snapshots before checking out (C15.e/f)
g. the one way a writable working copy is NOT snapshotted on the way in -- the workspace has no working-copy commit in
   the loaded view (it was forgotten) -- can never be followed by a checkout that changes tracked files: in
   finish_transaction the working copy is updated only if an old working-copy commit exists (expected-tree guard
   applies) or the tree recorded in the working copy equals the new commit's tree / is empty
"""
import re

from jjv.lib import (PathExplorer, bodies_with, body_accesses, bool_edges, check_order, find_ok_nodes, name_matches,
                     ok_exit_nodes, op_place, place_has_field, show, strip, term_calls, walk)

CU = "jj_cli::cli_util::"
WCH = CU + "WorkspaceCommandHelper::"
LWC = "jj_lib::working_copy::LockedWorkingCopy::"
MUTATORS = (LWC + "check_out", LWC + "reset", LWC + "recover", LWC + "set_sparse_patterns",
            "jj_lib::workspace::Workspace::check_out")

WC_MUTATOR_CALLERS = {
    "jj_lib::workspace::Workspace::check_out": "after-snapshot: the only caller chain is update_working_copy, asserted "
                                               "may_update_working_copy (C40.d)",
    CU + "update_working_copy": "after-snapshot (called from WorkspaceCommandHelper::update_working_copy and workspace add)",
    CU + "update_stale_working_copy": "recovery: preceded by a snapshot / recovery commit (C15.f)",
    "jj_lib::working_copy::create_and_check_out_recovery_commit": "recovery commit records the on-disk state first",
    WCH + "import_git_head": "reset() only re-points the tree state at the new Git HEAD; file contents are not touched",
    "jj_cli::commands::file::untrack::cmd_file_untrack": "reset() after a snapshot taken by workspace_helper",
    "jj_cli::commands::sparse::update_sparse_patterns_with": "after-snapshot (workspace_helper)",
    "jj_cli::commands::workspace::add::cmd_workspace_add": "new, empty workspace",
    "jj_cli::commands::workspace::add::cmd_workspace_add": "new, empty workspace",
}
NO_SNAPSHOT_USERS = {
    "jj_cli::commands::debug::object::cmd_debug_object", "jj_cli::commands::debug::object::get_tree_value",
    "jj_cli::commands::debug::working_copy::cmd_debug_working_copy",
    "jj_cli::commands::operation::integrate::cmd_op_integrate",
    "jj_cli::commands::util::backend::name::cmd_util_backend_name",
    "jj_cli::commands::workspace::root::cmd_workspace_root",
}


def run(ctx):
    ctx.explanation = (
        "Who-may-call and must-pass-through rules: working-copy mutators have a frozen caller table; "
        "Workspace::check_out and start_working_copy_mutation compare the tree recorded in the working copy with the "
        "expected one and error out on mismatch before mutating; every Ok exit of workspace_helper_with_stats passes "
        "snapshot_impl or the stale recovery, except on the edge where the git-import lock is None, which derives from "
        "is_working_copy_writable(); may_update_working_copy is written once as may_snapshot && should_commit and "
        "update_working_copy asserts it; workspace_helper_no_snapshot has six tabled users whose command code contains "
        "no working-copy mutator and no start_transaction.")
    ctx.clauses = ["who may mutate the working copy", "expected-tree guard", "snapshot on the way in",
                   "cannot-snapshot implies cannot-update", "no-snapshot helper is read-only"]
    ctx.not_decided = ["that the snapshot itself records every file (C23)", "third-party working-copy implementations"]
    rule_a(ctx)
    rule_b(ctx)
    rule_c(ctx)
    rule_d(ctx)
    rule_e(ctx)
    rule_f(ctx)
    rule_g(ctx)
    rule_h(ctx)


def rule_a(ctx):
    F = ctx.F
    sites = F.all_calls_to(MUTATORS)
    ctx.anchor("C40.a", "working-copy mutation call sites", sites, 8)
    for c in sites:
        if c.decl == "futures::Future::poll":
            continue
        root = c.body.root
        ok = root in WC_MUTATOR_CALLERS
        ctx.ob("C40.a/who-may-mutate-working-copy", f"{root}->{(c.res or c.decl).split('::')[-1]}", ok,
               WC_MUTATOR_CALLERS.get(root, "") if ok else
               "a new function mutates a working copy: it must be shown to run after a snapshot", where=c.where())


def _tree_guard(ctx, rule, root, target_pats, what):
    """in `root`: every call matching target_pats (or Ok exit when None) is unreachable from the `trees differ` edge"""
    F = ctx.F
    done = False
    for b in F.family_bodies(root):
        sl = F.slicer(b.id)
        cmps = []
        for c in b.calls:
            if c.cleanup or c.decl not in ("std::cmp::PartialEq::ne", "std::cmp::PartialEq::eq"):
                continue
            names = {x[1] for k in range(len(c.args)) for x in term_calls(sl.call_arg(c, k))}
            if any(n.endswith("LockedWorkingCopy::old_tree") for n in names):
                cmps.append(c)
        if not cmps:
            continue
        done = True
        ctx.fn_seen(b.id)
        for c in cmps:
            trues, falses = bool_edges(F, b, c)
            differ = trues if c.decl.endswith("::ne") else falses
            if target_pats is None:
                okn, errn, other = ok_exit_nodes(F, b)
                targets = okn + other
            else:
                targets = [x.bb for x in b.calls_to(target_pats)]
            p = b.path_avoiding(list(differ), targets) if differ else [0]
            ctx.ob(rule, root, bool(differ) and bool(targets) and p is None,
                   f"{what} is unreachable once the recorded tree differs from the expected one (that edge returns an error)"
                   if differ and p is None else f"{what} proceeds although the working copy changed concurrently",
                   where=c.where())
    ctx.anchor(rule, f"{root}: old_tree comparison", 1 if done else 0, 1)


def rule_b(ctx):
    _tree_guard(ctx, "C40.b/expected-tree-guard", "jj_lib::workspace::Workspace::check_out", LWC + "check_out", "check_out")
    _tree_guard(ctx, "C40.b/expected-tree-guard", WCH + "start_working_copy_mutation", None, "handing out the locked working copy")
    _tree_guard(ctx, "C40.b/expected-tree-guard", CU + "update_stale_working_copy", LWC + "check_out", "check_out")


def rule_c(ctx):
    F = ctx.F
    root = CU + "CommandHelper::workspace_helper_with_stats"
    bs = bodies_with(F, root, WCH + "snapshot_impl")
    if not ctx.anchor("C40.c", root, bs, 1):
        return
    b = bs[0]
    ctx.fn_seen(b.id)
    sl = F.slicer(b.id)
    snaps = [c for c in b.calls_to((WCH + "snapshot_impl", CU + "CommandHelper::recover_stale_working_copy_impl"))
             if c.decl != "futures::Future::poll"]
    oks = set()
    for c in snaps:
        oks |= find_ok_nodes(F, b, c)
    # the bypass: None edge of the lock option derived from is_working_copy_writable()
    bypass = set()
    for bb, t in b.switches():
        ds = b.discr_source(bb)
        if ds and ds[1] == "std::option::Option":
            term = sl.place(ds[0], at=bb)
            names = {x[1] for x in term_calls(term)}
            if any(n.endswith("is_working_copy_writable") for n in names):
                e = b.variant_edge(bb, "None")
                if e is not None:
                    bypass.add(e)
    okn, errn, other = ok_exit_nodes(F, b)
    bad = None
    for x in okn:
        if not b.set_dominated(x, oks | bypass):
            bad = b.path_avoiding([0], [x], oks | bypass)
    ctx.ob("C40.c/snapshot-on-the-way-in", root, bool(oks) and bool(bypass) and bool(okn) and bad is None,
           "every Ok exit passes snapshot_impl()/stale recovery, or the `working copy not writable` edge" if bad is None and oks
           else f"a command helper can be handed out without snapshotting a writable working copy: {b.show_path(bad)[-8:] if bad else ''}")
    # snapshot_impl snapshots: its Ok exits pass snapshot_working_copy
    check_order(ctx, "C40.c/snapshot_impl-snapshots", WCH + "snapshot_impl", WCH + "snapshot_working_copy",
                "re:^std::result::Result::Ok$") if False else None
    for b2 in bodies_with(F, WCH + "snapshot_impl", WCH + "snapshot_working_copy"):
        s = [c for c in b2.calls_to(WCH + "snapshot_working_copy") if c.decl != "futures::Future::poll"]
        o = set()
        for c in s:
            o |= find_ok_nodes(F, b2, c)
        okn2, _, oth2 = ok_exit_nodes(F, b2)
        good = bool(o) and bool(okn2) and all(b2.set_dominated(x, o) for x in okn2)
        ctx.ob("C40.c/snapshot_impl-snapshots", WCH + "snapshot_impl", good,
               "Ok only after snapshot_working_copy()?" if good else "snapshot_impl can succeed without snapshotting")


def rule_d(ctx):
    F = ctx.F
    ADT = "jj_cli::cli_util::WorkspaceCommandHelper"
    rows = F.q("SELECT DISTINCT fn FROM field_access WHERE adt=? AND field='may_update_working_copy'", (ADT,))
    writers = []
    for r in rows:
        b = F.body(r["fn"])
        if any(k in ("write", "mut", "callret") and place_has_field(p, ADT, "may_update_working_copy")
               for (bb, k, p, ln) in body_accesses(b)):
            writers.append(b.root)
    ctx.ob("C40.d/flag-has-no-writers-after-construction", ADT, not writers, "may_update_working_copy is set only in the "
           "constructor literal" if not writers else f"written in {writers}")
    b = F.body(WCH + "new")
    ok = False
    if b is not None:
        ctx.fn_seen(b.id)
        sl = F.slicer(b.id)
        for i, blk in enumerate(b.blocks):
            for s in blk["s"]:
                rv = s["r"]
                if rv["k"] == "agg" and rv.get("adt") == ADT:
                    t = sl.operand(dict(zip(rv["fields"], rv["o"]))["may_update_working_copy"], at=i)
                    from jjv.lib import alts
                    al = [strip(a) for a in alts(t)]
                    has_false = ("const", False) in al
                    others = [a for a in al if a != ("const", False)]
                    # the non-false alternative is defined only on the may_snapshot==true edge
                    defs, _ = b.defs
                    guard = False
                    for bb, tsw in b.switches():
                        p = op_place(tsw["o"])
                        if p is None:
                            continue
                        tt = strip(sl.place(p, at=bb))
                        if isinstance(tt, tuple) and tt[0] == "param" and tt[2] == "may_snapshot_working_copy":
                            e_true = b.edge_node(bb, "else")
                            calls = [c for c in b.calls if not c.cleanup and (c.res or "").endswith("should_commit_transaction")]
                            guard = bool(calls) and all(b.set_dominated(c.bb, {e_true}) for c in calls)
                    ok = has_false and guard and all(isinstance(a, tuple) and a[0] == "call" and
                                                     a[1].endswith("should_commit_transaction") for a in others)
                    ctx.info["may_update_working_copy"] = show(t)[:160]
    ctx.ob("C40.d/update-implies-snapshot", WCH + "new", ok,
           "may_update_working_copy = may_snapshot_working_copy && should_commit_transaction()" if ok else
           "a helper that may not snapshot can be allowed to update the working copy")
    # update_working_copy asserts the flag
    b = None
    for x in F.family_bodies(WCH + "update_working_copy"):
        if x.calls_to(CU + "update_working_copy"):
            b = x
    ok = False
    if b is not None:
        sl = F.slicer(b.id)
        for bb, tsw in b.switches():
            p = op_place(tsw["o"])
            if p is None:
                continue
            tt = sl.place(p, at=bb)
            if any(w[0] == "field" and w[3] == "may_update_working_copy" for w in walk(tt)):
                e_true = b.edge_node(bb, "else")
                ok = all(b.set_dominated(c.bb, {e_true}) for c in b.calls_to(CU + "update_working_copy"))
    ctx.ob("C40.d/update-asserts-flag", WCH + "update_working_copy", ok,
           "the checkout is reached only on the may_update_working_copy==true edge (assert!)" if ok else
           "update_working_copy no longer asserts may_update_working_copy")


def rule_e(ctx):
    F = ctx.F
    NS = CU + "CommandHelper::workspace_helper_no_snapshot"
    sites = [c for c in F.all_calls_to(NS) if c.decl != "futures::Future::poll"]
    ctx.anchor("C40.e", "users of workspace_helper_no_snapshot", sites, 5)
    cmds = set(F.find_fns("re:^jj_cli::commands::.*::cmd_[a-z_0-9]+$", roots_only=True))
    muts = {c.body.root for c in F.all_calls_to(MUTATORS)}
    for c in sites:
        root = c.body.root
        tabled = root in NO_SNAPSHOT_USERS
        cone = F.cg.cone([root], cut=cmds - {root}, direct_only=True, crates=("jj_cli",))
        bad = [r for r in cone if r in muts] + [r for r in cone if r == WCH + "start_transaction"]
        ok = tabled and not bad
        ctx.ob("C40.e/no-snapshot-helper-is-read-only", root, ok,
               "tabled read-only user; its command code has no working-copy mutator and no start_transaction" if ok else
               ("not in the table of commands allowed to skip the snapshot" if not tabled else
                f"a command that skips the snapshot reaches {bad[:2]}"), where=c.where())


def rule_f(ctx):
    check_order(ctx, "C40.f/snapshot-before-commit", WCH + "snapshot_working_copy", LWC + "snapshot",
                "re:^jj_cli::cli_util::CommandHelper::maybe_commit_transaction$")


def rule_h(ctx):
    """the permission flag and the snapshot gate are the same predicate: WorkspaceCommandHelper::new(.., may_snapshot) gets
    exactly CommandHelper::is_working_copy_writable() (possibly narrowed by `&& ..`), the predicate that decides in
    workspace_helper_with_stats whether the working copy is snapshotted"""
    F = ctx.F
    from jjv.lib import alts
    GATE = CU + "CommandHelper::is_working_copy_writable"
    sites = [c for c in F.all_calls_to(WCH + "new", crates=("jj_cli",)) if not c.cleanup]
    if not ctx.anchor("C40.h", "WorkspaceCommandHelper::new call sites", sites, 1):
        return
    tabled = {
        CU + "CommandHelper::for_workable_repo":
            "helper for a workspace the caller has just created or loaded itself (init, clone, workspace add, update-stale); "
            "the repo is not loaded at --at-op, only --ignore-working-copy applies",
        CU + "CommandHelper::recover_stale_working_copy_impl":
            "stale recovery at the working copy's own operation: snapshots right away (C40.c counts it as the snapshot)",
    }
    for c in sites:
        ctx.fn_seen(c.body.id)
        sl = F.slicer(c.body.id)
        t = sl.call_arg(c, 4)
        if c.body.root in tabled:
            txt = show(t)
            okx = "ignore_working_copy" in txt and "Not(" in txt
            ctx.ob("C40.h/update-permission-equals-snapshot-gate", c.body.root, okx, "tabled: " + tabled[c.body.root] if okx else
                   f"tabled site no longer passes !ignore_working_copy: {txt[:80]}", where=c.where())
            continue
        bad = []
        for a in alts(t):
            a = strip(a)
            if a == ("const", False):
                continue
            names = {x[1] for x in term_calls(a)}
            top = a[1] if isinstance(a, tuple) and a[0] == "call" else None
            if top == GATE:
                continue
            # `gate && more`: the alternative is only defined on the gate's true edge
            if GATE in names and isinstance(a, tuple) and a[0] in ("un", "bin", "call"):
                gate_calls = [g for g in c.body.calls_to(GATE)]
                tr = set()
                for g in gate_calls:
                    tr |= set(bool_edges(F, c.body, g)[0])
                if tr and c.body.set_dominated(c.bb, tr | {0}) and False:
                    continue
            bad.append(show(a)[:100])
        ctx.ob("C40.h/update-permission-equals-snapshot-gate", c.body.root, not bad,
               "may_snapshot_working_copy := is_working_copy_writable(), the predicate of the snapshot gate" if not bad else
               f"the helper may update the working copy under a condition ({bad[0]}) that is not the one deciding whether it was "
               f"snapshotted (is_working_copy_writable): a command can then check out over unsnapshotted edits", where=c.where())
    # and the gate in workspace_helper_with_stats is that predicate (C40.c checks the dominance, here the identity)
    for b in bodies_with(F, CU + "CommandHelper::workspace_helper_with_stats", WCH + "snapshot_impl"):
        names = {x.res or x.decl or "" for x in b.calls if not x.cleanup}
        ctx.ob("C40.h/snapshot-gate-predicate", b.root, GATE in names, "gate = is_working_copy_writable()" if GATE in names else
               "workspace_helper_with_stats no longer consults is_working_copy_writable()")


def rule_g(ctx):
    F = ctx.F
    # g1. snapshot_working_copy: Ok exits pass LockedWorkingCopy::snapshot or the tabled `workspace not in the view` bypass
    root = WCH + "snapshot_working_copy"
    bs = bodies_with(F, root, LWC + "snapshot")
    if ctx.anchor("C40.g", root, bs, 1):
        b = bs[0]
        ctx.fn_seen(b.id)
        sl = F.slicer(b.id)
        snaps = [c for c in b.calls_to(LWC + "snapshot") if c.decl != "futures::Future::poll"]
        oks = set()
        for c in snaps:
            oks |= find_ok_nodes(F, b, c)
        bypass = set()
        for bb, t in b.switches():
            ds = b.discr_source(bb)
            if ds and ds[1] == "std::option::Option":
                term = sl.place(ds[0], at=bb)
                if any(x[1] == CU + "handle_stale_working_copy" for x in term_calls(term)):
                    e = b.variant_edge(bb, "None")
                    if e is not None:
                        bypass.add(e)
        okn, _, _ = ok_exit_nodes(F, b)
        bad = [x for x in okn if not b.set_dominated(x, oks | bypass)]
        ctx.ob("C40.g/snapshot-or-workspace-absent", root, bool(oks) and bool(okn) and not bad,
               "every Ok exit passes LockedWorkingCopy::snapshot()? or the `workspace has no working-copy commit in this view` edge"
               if oks and okn and not bad else "snapshot_working_copy can return Ok without snapshotting on another path")
        ctx.info["unsnapshotted_bypass_edges"] = len(bypass)
    # g2. finish_transaction: the update is guarded
    root = WCH + "finish_transaction"
    UW = WCH + "update_working_copy"
    bs = bodies_with(F, root, UW)
    if not ctx.anchor("C40.g", root, bs, 1):
        return
    b = bs[0]
    ctx.fn_seen(b.id)
    sl = F.slicer(b.id)
    ups = [c for c in b.calls_to(UW) if c.decl != "futures::Future::poll"]
    guard = set()
    why = []
    for c in b.calls:
        if c.cleanup:
            continue
        n = c.res or c.decl or ""
        if n in ("std::option::Option::<T>::is_none", "std::option::Option::<T>::is_some"):
            t = sl.call_arg(c, 0)
            names = {x[1] for x in term_calls(t)}
            # the old working-copy commit: looked up in the BASE repo's view
            if any(x.endswith("Transaction::base_repo") for x in names) and any(x.endswith("View::get_wc_commit_id") for x in names):
                tr, fa = bool_edges(F, b, c)
                guard |= set(fa if n.endswith("is_none") else tr)
                why.append("old working-copy commit exists")
        elif b.locals and c.bb is not None:
            # a bool helper that looks at the tree recorded in the working copy
            from jjv.lib import callee_reaches
            d = b.blocks[c.bb]["t"].get("d")
            if n.startswith(WCH) and callee_reaches(F, c, "jj_lib::working_copy::WorkingCopy::tree", crates=("jj_cli",)) and \
                    n not in (UW, WCH + "update_working_copy"):
                tr, fa = bool_edges(F, b, c)
                if fa:
                    guard |= set(fa)
                    why.append(f"{n.split('::')[-1]}() == false")
    # discriminant tests on the old commit (if let Some(old) = ..)
    for bb, t in b.switches():
        ds = b.discr_source(bb)
        if ds and ds[1] == "std::option::Option":
            term = sl.place(ds[0], at=bb)
            names = {x[1] for x in term_calls(term)}
            if any(x.endswith("Transaction::base_repo") for x in names) and any(x.endswith("View::get_wc_commit_id") for x in names) \
                    and not any(x.endswith("Transaction::repo") for x in names):
                e = b.variant_edge(bb, "Some")
                # only count switches that come after the commit of the transaction (the lookups themselves also match)
                if e is not None and ups and all(u.bb in b.after(e) for u in ups) and \
                        any(cm.bb in b.reachable_from([0], avoid=[e]) for cm in b.calls_to(CU + "CommandHelper::maybe_commit_transaction")):
                    pass
    ok = bool(ups) and bool(guard) and all(b.set_dominated(u.bb, guard) for u in ups)
    ctx.ob("C40.g/no-unguarded-checkout-of-unsnapshotted-workspace", root, ok,
           f"update_working_copy is reached only when {' or '.join(sorted(set(why)))}" if ok else
           "finish_transaction can check out a new commit in a workspace that had no working-copy commit when the command "
           "started: that working copy was not snapshotted (C40.g/snapshot-or-workspace-absent) and Workspace::check_out gets no "
           "expected tree, so tracked files edited since the last snapshot are overwritten or deleted without being recorded",
           where=ups[0].where() if ups else None)
    # g3. polarity of the helper: it answers true only when the recorded tree differs from the new one
    hb = F.body(WCH + "workspace_has_unsnapshotted_tree_other_than")
    if hb is not None:
        ctx.fn_seen(hb.id)
        names = [c.res or c.decl or "" for c in hb.calls if not c.cleanup]
        nes = [n for n in names if n.endswith("::ne") or n.endswith("PartialEq::ne")]
        eqs = [n for n in names if n.endswith("PartialEq::eq")]
        okh = "jj_lib::working_copy::WorkingCopy::tree" in names and any(x.endswith("Commit::tree_ids") for x in names) and \
            len(nes) >= 1 and not eqs
        ctx.ob("C40.g/helper-compares-recorded-tree", hb.id, okh,
               "true only if working_copy.tree() != new_commit tree (and is not empty)" if okh else
               "the helper no longer compares the recorded tree with the new commit's tree by inequality")
