"""C33  Git ref names and jj bookmark/tag symbols map one-to-one (namespace tables agree).

The writer (to_git_ref_name / to_git_or_remote_tag_ref_name) and the parser (parse_git_ref / parse_remote_tag_ref)
are each reduced to a table {(kind, local|remote, shape)} read from MIR: decoded format_args! templates with the
role of each argument, and strip_prefix constants with the role of each split piece.  The tables must be equal.
"""
from jjv.lib import (bool_edges, format_shape, format_sites, name_matches, show, strip, term_calls, term_fields, walk)

G = "jj_lib::git::"
LOCAL = "jj_lib::git::REMOTE_NAME_FOR_LOCAL_GIT_REPO"
SYM = "jj_lib::ref_name::RemoteRefSymbol"
KIND = "jj_lib::git::GitRefKind"


def run(ctx):
    ctx.explanation = (
        "Table agreement decided from MIR: every format_args! template in the ref-name writers is decoded (literal "
        "pieces, constant arguments inlined, other arguments labelled by the RemoteRefSymbol field they read) and "
        "tagged with the GitRefKind arm and the `remote == git` edge it lies on; every strip_prefix constant in the "
        "parsers is tagged with the kind it yields, whether the remote is the reserved `git` or split off the path, "
        "and the order of the split pieces. Writer table == parser table for the bookmark/tag pair and for the "
        "remote-tag pair; both sides exclude the name HEAD; export builds ref names only through these writers.")
    ctx.clauses = ["writer and parser agree on namespace, kind, locality and piece order", "HEAD and the reserved "
                   "remote are excluded on both sides", "no second ref-name formatter in import/export"]
    ctx.not_decided = ["remote names already present in .git/config that jj never validated"]
    F = ctx.F
    w1 = writer_table(ctx, G + "to_git_ref_name", None)
    p1 = parser_table(ctx, G + "parse_git_ref")
    compare(ctx, "C33.a/bookmark-and-tag-refs", w1, p1)
    w2 = writer_table(ctx, G + "to_git_or_remote_tag_ref_name", "Tag")
    p2 = parser_table(ctx, G + "parse_remote_tag_ref")
    # tags of the local git repo are parsed by parse_git_ref
    p2 = p2 | {e for e in p1 if e[0] == "Tag"}
    compare(ctx, "C33.a/remote-tag-refs", w2, p2)
    rule_b(ctx)
    rule_c(ctx)
    rule_d(ctx)


def _role(t):
    fs = {f for (a, f) in term_fields(t) if a == SYM}
    if fs == {"name"}:
        return "{name}"
    if fs == {"remote"}:
        return "{remote}"
    return "{?}"


def _is_local_const(t):
    return any(w[0] == "static" and w[1] == LOCAL for w in walk(t)) or \
        any(w[0] == "const" and w[1] == "git" for w in walk(t))


def _conds(F, b, node):
    """(kind, locality) conditions under which CFG node `node` of body b executes"""
    kind, loc = None, None
    for bb, t in b.switches():
        ds = b.discr_source(bb)
        if ds and ds[1] == KIND:
            for v in ds[2].values():
                e = b.variant_edge(bb, v)
                if e is not None and b.set_dominated(node, {e}):
                    kind = v
    sl = F.slicer(b.id)
    for c in b.calls:
        if c.cleanup or c.decl not in ("std::cmp::PartialEq::eq", "std::cmp::PartialEq::ne"):
            continue
        if not any(_is_local_const(sl.call_arg(c, k)) for k in range(len(c.args))):
            continue
        trues, falses = bool_edges(F, b, c)
        if c.decl.endswith("::ne"):
            trues, falses = falses, trues
        if trues and b.set_dominated(node, set(trues)):
            loc = "local"
        elif falses and b.set_dominated(node, set(falses)):
            loc = "remote"
    return kind, loc


def writer_table(ctx, root, fixed_kind):
    F = ctx.F
    fam = F.family_bodies(root)
    if not ctx.anchor("C33.a", root, fam, 1):
        return set()
    table = set()
    main = F.body(root)
    for b in fam:
        ctx.fn_seen(b.id)
        for c, pieces in format_sites(F, b):
            if pieces is None:
                ctx.ob("C33.a/template-decoded", b.id, False, "format template with options could not be decoded")
                continue
            shape = "".join(p[1] if p[0] == "lit" else (strip(p[1])[1] if strip(p[1])[0] == "const" else _role(p[1]))
                            for p in pieces)
            if not shape.startswith("refs/"):
                continue
            if b is main:
                kind, loc = _conds(F, b, c.bb)
            else:
                # closure passed to bool::then(cond): runs iff cond; conditions of the call site + cond
                kind, loc = None, None
                sl = F.slicer(main.id)
                for pc in main.calls:
                    if pc.cleanup or not name_matches(pc.res or pc.decl or "", "re:bool>::then$|bool::then$"):
                        continue
                    if any(x[1] == "closure:" + b.id for k in range(len(pc.args)) for x in term_calls(sl.call_arg(pc, k))):
                        kind, _ = _conds(F, main, pc.bb)
                        cond = strip(sl.call_arg(pc, 0))
                        if isinstance(cond, tuple) and cond[0] == "call" and cond[1].endswith("::eq") and \
                                any(_is_local_const(a) for a in cond[2]):
                            loc = "local"
            table.add((fixed_kind or kind, loc, shape))
    # the remote/name boundary is the FIRST '/' (remote names contain no '/', bookmark and tag names may)
    splits = [c for c in b.calls if not c.cleanup and name_matches(c.res or c.decl or "", "re:str>::r?split(_once|n|_terminator)?$")]
    for c in splits:
        nm = (c.res or c.decl).split("::")[-1]
        sep = strip(sl.call_arg(c, 1))
        okc = nm == "split_once" and isinstance(sep, tuple) and sep[0] == "const" and sep[1] in ("/", ord("/"))
        ctx.ob("C33.a/remote-split-at-first-separator", f"{root.split('::')[-1]}|{nm}", okc,
               "split_once('/'): remote = text before the first '/', name = the rest (names may contain '/')" if okc else
               f"{nm}({show(sep)[:20]}) does not split `<remote>/<name>` at the first '/': a name containing '/' is not parsed "
               f"back into the symbol it was written from", where=c.where())
    ctx.info.setdefault("tables", {})[root] = sorted(map(str, table))
    return table


def parser_table(ctx, root):
    F = ctx.F
    b = F.body(root)
    if not ctx.anchor("C33.a", root, 1 if b else 0, 1):
        return set()
    ctx.fn_seen(root)
    sl = F.slicer(root)
    table = set()
    strips = [c for c in b.calls if not c.cleanup and name_matches(c.res or c.decl or "", "re:str>::strip_prefix$")]
    for c in strips:
        p = strip(sl.call_arg(c, 1))
        if not (isinstance(p, tuple) and p[0] == "const" and isinstance(p[1], str) and p[1].startswith("refs/")):
            continue
        prefix = p[1]
        # blocks that run only when this prefix matched: the result of this call is read as Some(..)
        for i, blk in enumerate(b.blocks):
            for s in blk["s"]:
                rv = s["r"]
                if rv["k"] == "agg" and rv.get("adt") == SYM:
                    fields = dict(zip(rv["fields"], rv["o"]))
                    tn = sl.operand(fields["name"], at=i)
                    tr = sl.operand(fields["remote"], at=i)
                    uses = any(x[3] and x[3][0] == b.id and x[3][1] == c.bb for x in term_calls(tn))
                    if not uses:
                        continue

                    def piece(t):
                        idx = [w[3] for w in walk(t) if w[0] == "field" and w[2] == "(tuple)"]
                        return idx[0] if idx else None
                    if _is_local_const(tr):
                        loc, shape = "local", prefix + "{name}"
                    else:
                        loc = "remote"
                        order = {piece(tr): "{remote}", piece(tn): "{name}"}
                        shape = prefix + order.get("0", "{?}") + "/" + order.get("1", "{?}")
                    # the kind returned together with this symbol: GitRefKind constants on the Some(prefix) path
                    from jjv.lib import find_ok_nodes
                    some_nodes = find_ok_nodes(F, b, c)
                    kinds = set()
                    for r in F.q("SELECT bb, variant FROM aggregate WHERE fn=? AND adt=? AND bb>=0", (root, KIND)):
                        if some_nodes and b.set_dominated(r["bb"], some_nodes):
                            kinds.add(r["variant"])
                    for kd in kinds or {None}:
                        table.add((kd, loc, shape))
    # the remote/name boundary is the FIRST '/' (remote names contain no '/', bookmark and tag names may)
    splits = [c for c in b.calls if not c.cleanup and name_matches(c.res or c.decl or "", "re:str>::r?split(_once|n|_terminator)?$")]
    for c in splits:
        nm = (c.res or c.decl).split("::")[-1]
        sep = strip(sl.call_arg(c, 1))
        okc = nm == "split_once" and isinstance(sep, tuple) and sep[0] == "const" and sep[1] in ("/", ord("/"))
        ctx.ob("C33.a/remote-split-at-first-separator", f"{root.split('::')[-1]}|{nm}", okc,
               "split_once('/'): remote = text before the first '/', name = the rest (names may contain '/')" if okc else
               f"{nm}({show(sep)[:20]}) does not split `<remote>/<name>` at the first '/': a name containing '/' is not parsed "
               f"back into the symbol it was written from", where=c.where())
    ctx.info.setdefault("tables", {})[root] = sorted(map(str, table))
    return table


def compare(ctx, rule, w, p):
    ctx.anchor(rule, "writer table entries", w, 2)
    ctx.anchor(rule, "parser table entries", p, 1)
    for e in sorted(w | p, key=str):
        ok = e in w and e in p
        ctx.ob(rule, f"{e[0]}|{e[1]}|{e[2]}", ok, "produced by the writer and accepted by the parser with the same meaning" if ok
               else ("the writer emits this form but the parser does not map it back to the same symbol" if e in w else
                     "the parser accepts this form but the writer never produces it for that symbol"))


def rule_b(ctx):
    F = ctx.F
    for root in (G + "to_git_ref_name", G + "parse_git_ref"):
        b = F.body(root)
        sl = F.slicer(root)
        ok = False
        for c in b.calls:
            if not c.cleanup and c.decl == "std::cmp::PartialEq::eq":
                if any(strip(sl.call_arg(c, k)) == ("const", "HEAD") or
                       any(w == ("const", "HEAD") for w in walk(sl.call_arg(c, k))) for k in range(len(c.args))):
                    ok = True
        ctx.ob("C33.b/HEAD-excluded", root, ok, "name == \"HEAD\" is rejected" if ok else "HEAD is not excluded here")
    # every Bookmark-yielding branch of the parser excludes HEAD
    root = G + "parse_git_ref"
    b = F.body(root)
    sl = F.slicer(root)
    from jjv.lib import find_ok_nodes
    heads = [c for c in b.calls if not c.cleanup and c.decl == "std::cmp::PartialEq::eq" and
             any(any(w == ("const", "HEAD") for w in walk(sl.call_arg(c, k))) for k in range(len(c.args)))]
    for c in b.calls:
        if c.cleanup or not name_matches(c.res or c.decl or "", "re:str>::strip_prefix$"):
            continue
        nodes = find_ok_nodes(F, b, c)
        kinds = {r["variant"] for r in F.q("SELECT bb, variant FROM aggregate WHERE fn=? AND adt=? AND bb>=0", (root, KIND))
                 if nodes and b.set_dominated(r["bb"], nodes)}
        if "Bookmark" in kinds:
            pfx = strip(sl.call_arg(c, 1))
            ok = any(nodes and b.set_dominated(h.bb, nodes) for h in heads)
            ctx.ob("C33.b/HEAD-excluded-per-branch", f"{root}|{pfx[1] if isinstance(pfx, tuple) else '?'}", ok,
                   "this bookmark namespace rejects the name HEAD" if ok else
                   "a bookmark named HEAD can be imported from this namespace but never exported back")
    fn = G + "validate_remote_name"
    fam = F.family_bodies(fn)
    if ctx.anchor("C33.b", fn, fam, 1):
        refs = {r["item"] for r in F.q("SELECT item FROM const_ref WHERE root=?", (fn,))}
        errs = {r["variant"] for r in F.q("SELECT variant FROM aggregate WHERE root=? AND adt LIKE '%GitRemoteNameError'", (fn,))} | \
               {r["variant"] for r in F.q("SELECT variant FROM enum_const WHERE root=? AND adt LIKE '%GitRemoteNameError'", (fn,))}
        ok = LOCAL in refs and {"ReservedForLocalGitRepo", "WithSlash"} <= errs
        ctx.ob("C33.b/remote-name-validated", fn, ok, "rejects the reserved remote name and names containing '/'" if ok
               else "remote names equal to the reserved `git` or containing '/' are no longer rejected")


def rule_c(ctx):
    F = ctx.F
    # every decoded template or strip_prefix constant starting with one of the namespaces, anywhere in jj_lib::git
    allowed = {
        G + "to_git_ref_name", G + "to_git_or_remote_tag_ref_name", G + "parse_git_ref", G + "parse_remote_tag_ref",
        G + "push_refs", G + "to_remote_tag_ref_update", G + "default_fetch_refspec", G + "expand_fetch_refspecs",
        G + "parse_fetch_refspec", G + "remove_remote_git_refs", G + "remove_remote_refs", G + "rename_remote_git_refs",
        G + "rename_remote_refs", G + "resolve_git_ref_to_commit_id", G + "GitFetch::<'a>::fetch",
        G + "import_refs", G + "import_some_refs", G + "diff_refs_to_import", G + "collect_changed_refs_to_import",
    }
    rows = F.q("SELECT DISTINCT root FROM str_const WHERE (v LIKE '%refs/heads/%' OR v LIKE '%refs/tags/%' OR "
               "v LIKE '%refs/remotes/%' OR v LIKE '%refs/jj/remote-tags/%') AND root LIKE 'jj_lib::git::%'")
    roots = {r["root"] for r in rows}
    cr = F.q("SELECT DISTINCT root FROM const_ref WHERE item IN ('jj_lib::git::REMOTE_BOOKMARK_REF_NAMESPACE', "
             "'jj_lib::git::REMOTE_TAG_REF_NAMESPACE') AND root LIKE 'jj_lib::git::%'")
    roots |= {r["root"] for r in cr}
    ctx.anchor("C33.c", "functions mentioning the ref namespaces", roots, 6)
    exp = F.cg.cone([G + "export_refs", G + "export_some_refs"], crates=("jj_lib",))
    for r in sorted(roots):
        in_export = r in exp
        ok = r in allowed
        ctx.ob("C33.c/ref-name-formatters", r, ok, "tabled" + (" (export cone)" if in_export else "") if ok else
               "a function builds or parses Git ref names outside the paired writer/parser"
               + (" inside the export cone" if in_export else ""))


def rule_d(ctx):
    """the premise of the first-separator split: remote names that enter the view through add/rename/fetch/push contain
    no '/' and are not the reserved local remote"""
    F = ctx.F
    from jjv.lib import find_ok_nodes, ok_exit_nodes
    fid = G + "validate_remote_name"
    b = F.body(fid)
    if not ctx.anchor("C33.d", fid, [b] if b is not None else [], 1):
        return
    ctx.fn_seen(fid)
    sl = F.slicer(fid)
    oks, errs, _ = ok_exit_nodes(F, b)
    slash = [c for c in b.calls if not c.cleanup and name_matches(c.res or c.decl or "", "re:str>::contains$")]
    okc = False
    for c in slash:
        sep = strip(sl.call_arg(c, 1))
        if isinstance(sep, tuple) and sep[0] == "const" and sep[1] in ("/", ord("/")):
            tr, fa = bool_edges(F, b, c)
            # Ok only reachable through the false edge
            p = b.path_avoiding([0], list(oks), set(fa)) if oks and fa else [0]
            okc = p is None
    ctx.ob("C33.d/remote-names-have-no-slash", fid, okc, "validate_remote_name returns Ok only when !name.contains('/')" if okc else
           "validate_remote_name accepts a remote name containing '/': refs/remotes/<remote>/<name> is no longer uniquely splittable")
    callers = {c.body.root for c in F.all_calls_to(fid) if not c.cleanup}
    need = {G + "add_remote", G + "rename_remote"}
    ctx.ob("C33.d/validated-where-remotes-are-named", fid, need <= callers,
           f"called from {sorted(x.split('::')[-1] for x in callers)}" if need <= callers else
           f"remote names are no longer validated in {sorted(x.split('::')[-1] for x in need - callers)}")
    for r in sorted(need & callers):
        for bb in bodies_with_(F, r, fid):
            for c in bb.calls_to(fid):
                ctx.ob("C33.d/validation-enforced", r, bool(find_ok_nodes(F, bb, c)), "?-checked", where=c.where())


def bodies_with_(F, root, pat):
    from jjv.lib import bodies_with
    return bodies_with(F, root, pat)
