"""C35  Quoted symbols and strings survive the expression languages (escape vocabulary agrees).

a. every escape the printer emits is accepted by each grammar, and the parser maps it back to the very character
   it was printed for
b. the printer escapes both characters the grammars exclude from plain string content (`"` and `\\`)
c. the three grammars' string rules are identical
d. format_symbol quotes unless the pest `identifier` rule accepts; format_string wraps escape_string in quotes;
   format_remote_symbol formats both halves with format_symbol
"""
import os

from jjv.lib import format_shape, format_sites, name_matches, show, strip, term_calls
from rules.escapes_common import GRAMMARS, STRING_RULES, grammar_escapes, parser_map, pest_rules, printer_map


def run(ctx):
    F = ctx.F
    ctx.explanation = (
        "Table agreement across three artefacts: the printer's table char->escape is read from the SwitchInt on the "
        "char and the constant pushed in each arm of dsl_util::escape_string (MIR); the accepted escapes are read "
        "from the string_escape rule of revset.pest, fileset.pest and template.pest; the parser's table escape->char "
        "is read from the string comparisons and pushed constants of StringLiteralParser::parse (MIR). Printer ⊆ "
        "grammar, and parser(printer(c)) == c for every tabled character; control characters take the \\\\xHH form "
        "which grammar and parser both handle; the string rules of the three grammars are textually identical; the "
        "symbol formatters are composed of is_identifier / escape_string as required.")
    ctx.clauses = ["printer ⊆ grammar", "parser inverts the printer on every escape", "excluded content characters are escaped",
                   "grammars agree", "symbol formatting composition"]
    ctx.not_decided = ["that is_identifier and the grammar agree on every string (it is the grammar: parsed with the pest rule)",
                       "unicode handling inside string_content (passes through unchanged)"]
    pm, ctrl = printer_map(F)
    qm, hexarm = parser_map(F)
    if not ctx.anchor("C35.a", "printer table (escape_string)", pm or {}, 6):
        return
    if not ctx.anchor("C35.a", "parser table (StringLiteralParser::parse)", qm or {}, 6):
        return
    ctx.fn_seen("jj_lib::dsl_util::escape_string", "jj_lib::dsl_util::StringLiteralParser::<R>::parse")
    ctx.info["printer"] = {repr(chr(k)): v for k, v in pm.items()}
    ctx.info["parser"] = {k: repr(v) for k, v in qm.items()}
    gsets = {}
    grules = {}
    for g, rel in GRAMMARS.items():
        path = os.path.join(ctx.repo, rel)
        rules = pest_rules(path)
        grules[g] = rules
        body = rules.get("string_escape", ("", ""))[1]
        gs = grammar_escapes(body)
        ctx.anchor("C35.a", f"{g}.pest string_escape alternatives", gs or [], 6)
        gsets[g] = gs or set()
        ctx.info[f"grammar_{g}"] = sorted(gsets[g])
    for code, esc in sorted(pm.items()):
        ok_form = isinstance(esc, str) and len(esc) == 2 and esc[0] == "\\"
        letter = esc[1:] if ok_form else esc
        for g in GRAMMARS:
            ctx.ob("C35.a/printer-escape-accepted", f"{g}|{letter!r}", ok_form and letter in gsets[g],
                   f"'\\{letter}' is a string_escape alternative" if ok_form and letter in gsets[g] else
                   f"escape_string emits {esc!r} which {g}.pest does not accept")
        back = qm.get(letter)
        ctx.ob("C35.a/parser-inverts-printer", f"{chr(code)!r}", back == chr(code),
               f"printed as {esc!r}, parsed back to {back!r}" if back == chr(code) else
               f"character {chr(code)!r} is printed as {esc!r} but the parser maps that escape to {back!r}")
    ctx.ob("C35.a/control-chars-hex", "ascii control", ctrl and hexarm and all("xHH" in gsets[g] for g in GRAMMARS),
           "other ASCII control characters are printed as \\xHH (ascii::escape_default under is_ascii_control), which "
           "grammars and parser handle" if ctrl and hexarm else
           "control characters are not printed in a form all grammars/parser accept")
    # b. the two characters excluded from string_content_char must be escaped by the printer
    for g, rules in grules.items():
        body = rules.get("string_content_char", ("", ""))[1]
        excluded = set()
        import re
        m = re.search(r'!\s*\(([^)]*)\)', body)
        if m:
            from rules.escapes_common import unquote
            excluded = {unquote(x.group(1)) for x in re.finditer(r'"((?:[^"\\]|\\.)*)"', m.group(1))}
        ok = bool(excluded) and all(ord(c) in pm for c in excluded)
        ctx.ob("C35.b/excluded-chars-escaped", g, ok, f"string content excludes {sorted(excluded)}; all escaped by the printer"
               if ok else f"{g}.pest excludes {sorted(excluded)} from string content but the printer leaves one unescaped")
    # c. sibling agreement of the grammars
    base = grules["revset"]
    for g in ("fileset", "template"):
        for r in STRING_RULES:
            ok = r in base and grules[g].get(r) == base.get(r)
            ctx.ob("C35.c/grammars-agree", f"{g}.{r}", ok, "identical to revset.pest" if ok else
                   f"{r} differs between revset.pest and {g}.pest: {base.get(r)} vs {grules[g].get(r)}")
    rule_d(ctx)


def rule_d(ctx):
    F = ctx.F
    R = "jj_lib::revset::"
    b = F.body(R + "format_symbol")
    if ctx.anchor("C35.d", R + "format_symbol", 1 if b else 0, 1):
        from jjv.lib import bool_edges
        ident = [c for c in b.calls if not c.cleanup and (c.res or "") == "jj_lib::revset_parser::is_identifier"]
        fs = [c for c in b.calls if not c.cleanup and (c.res or "") == R + "format_string"]
        ok = False
        if ident and fs:
            trues, falses = bool_edges(F, b, ident[0])
            ok = bool(falses) and all(b.set_dominated(c.bb, set(falses)) for c in fs) and \
                b.path_avoiding(list(falses), b.return_blocks(), {c.bb for c in fs}) is None
        ctx.ob("C35.d/symbol-quoted-unless-identifier", R + "format_symbol", ok,
               "non-identifiers always go through format_string" if ok else
               "a symbol that is not an identifier can be printed unquoted")
    ident_fn = F.family_bodies("jj_lib::revset_parser::is_identifier")
    uses_pest = any(name_matches(c.res or c.decl or "", "re:pest::Parser.*::parse$|RevsetParser.*::parse$") for x in ident_fn for c in x.calls)
    ctx.ob("C35.d/is-identifier-is-the-grammar", "jj_lib::revset_parser::is_identifier", uses_pest,
           "decided by parsing with the pest identifier rule" if uses_pest else "is_identifier no longer uses the grammar")
    b = F.body(R + "format_string")
    if ctx.anchor("C35.d", R + "format_string", 1 if b else 0, 1):
        sites = format_sites(F, b)
        ok = False
        for c, pieces in sites:
            if pieces and format_shape(pieces) == '"{}"':
                arg = [p[1] for p in pieces if p[0] == "arg"][0]
                ok = any(x[1] == "jj_lib::dsl_util::escape_string" for x in term_calls(arg))
        ctx.ob("C35.d/string-quoted-and-escaped", R + "format_string", ok, 'format!("\\"{}\\"", escape_string(..))' if ok else
               "format_string does not wrap escape_string(..) in double quotes")
    b = F.body(R + "format_remote_symbol")
    if ctx.anchor("C35.d", R + "format_remote_symbol", 1 if b else 0, 1):
        ok = False
        for c, pieces in format_sites(F, b):
            if pieces and format_shape(pieces) == "{}@{}":
                args = [p[1] for p in pieces if p[0] == "arg"]
                ok = all(any(x[1] == R + "format_symbol" for x in term_calls(a)) for a in args) and \
                    [sorted(l[2] for l in __import__("jjv.lib", fromlist=["term_leaves"]).term_leaves(a) if l[0] == "param") for a in args] == [["name"], ["remote"]]
        ctx.ob("C35.d/remote-symbol-halves", R + "format_remote_symbol", ok, "format_symbol(name)@format_symbol(remote)" if ok
               else "name@remote is not built from format_symbol of each half in that order")
