"""C20  Shortest unique id prefixes are unique, minimal and resolvable (structural part: the restricted disambiguation
set and the name-priority table).

a. resolve_commit_prefix / resolve_change_prefix: a match inside the restricted (disambiguate-within) index is turned
   into an answer through the WHOLE repo (has_id / resolve_change_id: every visible commit of the change, not only those
   in the set); no match there falls back to the repo-wide prefix resolution; an ambiguous match stays ambiguous
b. sibling agreement: shortest_*_prefix_len_exact and resolve_*_prefix consult the same restricted index
   (commit_index / change_index over commit_change_ids) and fall back to the same repo index
c. the prefix length shown is lengthened until it is not a local tag or bookmark name, and that set of name kinds is
   exactly the set of kinds the symbol resolver tries before id prefixes
"""
from jjv.lib import (alts, bodies_with, find_ok_nodes, impls_of, name_matches, norm, ok_exit_nodes, show, strip, term_calls,
                     term_fields, walk)

IP = "jj_lib::id_prefix::IdPrefixIndex::<'_>::"
VIEW = "jj_lib::view::View::"


def fields_of(b):
    from jjv.lib import body_accesses
    out = set()
    for (bb, kind, p, ln) in body_accesses(b):
        for e in p[1:]:
            if isinstance(e, list) and e[0] == "f":
                out.add(e[2])
    return out


def names(b):
    return {c.res or c.decl or "" for c in b.calls if not c.cleanup}


def run(ctx):
    F = ctx.F
    ctx.explanation = (
        "Structural rules on lib/src/id_prefix.rs and the symbol resolver: in resolve_change_prefix the targets returned "
        "for a single match of the restricted index derive from Repo::resolve_change_id (repo-wide), in "
        "resolve_commit_prefix the id is returned only after Index::has_id; both fall back to the repo-wide prefix "
        "resolution when the restricted index has no match; the *_len_exact siblings read the same restricted index "
        "field and fall back to the repo-wide shortest-prefix query; both shortest_*_prefix_len pass the exact length "
        "through disambiguate_prefix_with_refs, which tests exactly the View accessors used by the PartialSymbolResolver "
        "impls that are not id-prefix resolvers (tags, bookmarks).")
    ctx.clauses = ["restricted-set matches are answered from the whole repo", "fallback to the whole repo",
                   "shown length and resolution use the same indexes", "prefixes never shadow a higher-priority name"]
    ctx.not_decided = ["uniqueness/minimality arithmetic inside IdIndex and the commit index (value-level)",
                       "extension symbol resolvers (lower priority by construction)"]
    rule_a(ctx)
    rule_b(ctx)
    rule_c(ctx)


def fam(ctx, root, must):
    bs = [b for b in ctx.F.family_bodies(root) if any(name_matches(n, must) for n in names(b))]
    if not ctx.anchor("C20", f"{root.split('::')[-1]} body", bs, 1):
        return None
    ctx.fn_seen(bs[0].id)
    return bs[0]


def nomatch_falls_back(F, b, fallback):
    """every path from the NoMatch arm of the restricted lookup's match to a return passes the repo-wide fallback call"""
    fb = [c.bb for c in b.calls if not c.cleanup and (c.res or c.decl) == fallback]
    if not fb:
        return False
    rets = [i for i, blk in enumerate(b.blocks) if not blk.get("c") and blk["t"]["k"] == "return"]
    ok = False
    for bb, t in b.switches():
        ds = b.discr_source(bb)
        if not ds or not ds[1] or not ds[1].endswith("::PrefixResolution"):
            continue
        e = b.variant_edge(bb, "NoMatch")
        if e is None:
            continue
        p = b.path_avoiding([e], rets, set(fb))
        ok = p is None
        if not ok:
            return False
    return ok


def rule_a(ctx):
    F = ctx.F
    # change ids
    b = fam(ctx, IP + "resolve_change_prefix", "re:IdIndex::<K, P, N>::resolve_prefix_to_key$")
    if b is not None:
        sl = F.slicer(b.id)
        ns = names(b)
        ok_fb = nomatch_falls_back(F, b, "jj_lib::repo::Repo::resolve_change_id_prefix")
        ctx.ob("C20.a/change/falls-back-to-repo", b.id, ok_fb, "NoMatch in the restricted set -> repo.resolve_change_id_prefix(prefix)"
               if ok_fb else "a change-id prefix unknown to the disambiguation set is no longer looked up in the whole repo")
        # SingleMatch payload in the return value: derives from Repo::resolve_change_id, not from the restricted index
        payload_ok, seen_single = True, 0
        for i, blk in enumerate(b.blocks):
            if blk.get("c"):
                continue
            for st in blk["s"]:
                rv = st["r"]
                if rv["k"] == "agg" and (rv.get("adt") or "").endswith("::PrefixResolution") and rv.get("v") == "SingleMatch":
                    seen_single += 1
                    t = sl.operand(rv["o"][0], at=i)
                    cn = {x[1] for x in term_calls(t)}
                    if "jj_lib::repo::Repo::resolve_change_id" not in cn:
                        payload_ok = False
        ctx.ob("C20.a/change/targets-from-whole-repo", b.id, seen_single >= 1 and payload_ok,
               "SingleMatch(repo.resolve_change_id(change_id)?): all visible commits of the change" if seen_single and payload_ok else
               "the commits returned for a change-id prefix come from the restricted set, not from the repo: commits of the change "
               "outside the set are missing")
        # None from resolve_change_id (hidden) -> NoMatch
    b = fam(ctx, IP + "resolve_commit_prefix", "re:IdIndex::<K, P, N>::resolve_prefix_to_key$")
    if b is not None:
        ns = names(b)
        ok_fb = nomatch_falls_back(F, b, "jj_lib::index::Index::resolve_commit_id_prefix")
        ctx.ob("C20.a/commit/falls-back-to-repo", b.id, ok_fb, "NoMatch in the restricted set -> repo.index().resolve_commit_id_prefix"
               if ok_fb else "a commit-id prefix unknown to the disambiguation set is no longer looked up in the whole repo")
        # SingleMatch(id) only on the true edge of has_id
        from jjv.lib import bool_edges
        has = [c for c in b.calls if not c.cleanup and (c.res or c.decl) == "jj_lib::index::Index::has_id"]
        okh = False
        if has:
            blocks_single = [i for i, blk in enumerate(b.blocks) if not blk.get("c") for st in blk["s"]
                             if st["r"]["k"] == "agg" and (st["r"].get("adt") or "").endswith("::PrefixResolution")
                             and st["r"].get("v") == "SingleMatch"]
            # the bool is block_on(has_id(..))?
            bo = [c for c in b.calls if not c.cleanup and name_matches(c.res or c.decl or "", "re:FutureExt::block_on$")]
            tr = set()
            for c in bo:
                t, f = bool_edges(F, b, c)
                tr |= set(t)
            okh = bool(blocks_single) and bool(tr) and all(b.set_dominated(x, tr) for x in blocks_single)
        ctx.ob("C20.a/commit/match-must-exist-in-repo", b.id, okh,
               "SingleMatch(id) only when repo.index().has_id(id)" if okh else
               "a commit id found only in the disambiguation set (possibly from another repo) is returned without checking the repo")


def rule_b(ctx):
    F = ctx.F
    pairs = [("commit", IP + "resolve_commit_prefix", IP + "shortest_commit_prefix_len_exact", "commit_index",
              "jj_lib::index::Index::resolve_commit_id_prefix", "jj_lib::index::Index::shortest_unique_commit_id_prefix_len"),
             ("change", IP + "resolve_change_prefix", IP + "shortest_change_prefix_len_exact", "change_index",
              "jj_lib::repo::Repo::resolve_change_id_prefix", "jj_lib::repo::Repo::shortest_unique_change_id_prefix_len")]
    for kind, res, sho, fld, res_fb, sho_fb in pairs:
        rb = [b for b in F.family_bodies(res) if "indexes" in fields_of(b) or fld in fields_of(b)]
        sb = [b for b in F.family_bodies(sho) if "indexes" in fields_of(b) or fld in fields_of(b)]
        if not ctx.anchor("C20.b", f"{kind}: resolver and shortest-length bodies", min(len(rb), len(sb)), 1):
            continue
        r, s_ = rb[0], sb[0]
        ctx.fn_seen(r.id, s_.id)
        fr, fs = fields_of(r), fields_of(s_)
        other = "change_index" if fld == "commit_index" else "commit_index"
        ok = fld in fr and fld in fs and other not in fr and other not in fs and "commit_change_ids" in fr and "commit_change_ids" in fs
        ctx.ob("C20.b/same-restricted-index", kind, ok,
               f"both read indexes.{fld} over indexes.commit_change_ids" if ok else
               f"resolver reads {sorted(fr & {'commit_index', 'change_index', 'commit_change_ids'})}, shortest-length reads "
               f"{sorted(fs & {'commit_index', 'change_index', 'commit_change_ids'})}: the length shown is computed against a "
               f"different set than the one used to resolve it")
        nr, ns = names(r), names(s_)
        ok2 = res_fb in nr and sho_fb in ns and "jj_lib::id_prefix::IdIndex::<K, P, N>::lookup_exact" in ns and \
            "jj_lib::id_prefix::IdIndex::<K, P, N>::resolve_prefix_to_key" in nr
        ctx.ob("C20.b/same-fallback", kind, ok2,
               "restricted index first, then the repo-wide index, on both sides" if ok2 else
               "resolver and shortest-length no longer use the same (restricted, then repo-wide) lookup chain")


def rule_c(ctx):
    F = ctx.F
    D = "jj_lib::id_prefix::disambiguate_prefix_with_refs"
    # both shortest_*_prefix_len pass the exact length through disambiguate_prefix_with_refs
    for kind in ("commit", "change"):
        root = IP + f"shortest_{kind}_prefix_len"
        bs = [b for b in F.family_bodies(root) if D in names(b)]
        ok = False
        for b in bs:
            ctx.fn_seen(b.id)
            sl = F.slicer(b.id)
            c = b.calls_to(D)[0]
            t = sl.call_arg(c, 2)
            ok = any(x[1] == IP + f"shortest_{kind}_prefix_len_exact" for x in term_calls(t))
            # and the value returned is the disambiguated one
            oks, _, _ = ok_exit_nodes(F, b)
            ok = ok and bool(oks) and all(b.set_dominated(x, {c.bb}) for x in oks)
        ctx.ob("C20.c/length-checked-against-names", root, ok,
               "Ok(disambiguate_prefix_with_refs(view, id, exact_len))" if ok else
               f"shortest_{kind}_prefix_len can return a length whose prefix is also a bookmark or tag name")
    # accessor table: name-like resolvers vs disambiguation
    impls = impls_of(F, "jj_lib::revset::PartialSymbolResolver::resolve_symbol", crates=("jj_lib",))
    ctx.anchor("C20.c", "PartialSymbolResolver impls in jj-lib", impls, 4)
    acc_res = {}
    for imp in impls:
        if "PrefixResolver" in imp:
            continue
        for b in F.family_bodies(imp):
            for n in names(b):
                if n.startswith(VIEW) and n.split("::")[-1].startswith("get_"):
                    acc_res.setdefault(n, set()).add(imp)
    db = F.family_bodies(D)
    acc_dis = set()
    for b in db:
        ctx.fn_seen(b.id)
        for n in names(b):
            if n.startswith(VIEW) and n.split("::")[-1].startswith("get_"):
                acc_dis.add(n)
    ctx.anchor("C20.c", "name kinds resolved before id prefixes", acc_res, 2)
    for a in sorted(set(acc_res) | acc_dis):
        ok = a in acc_res and a in acc_dis
        ctx.ob("C20.c/priority-table-agrees", a.split("::")[-1], ok,
               "checked by disambiguate_prefix_with_refs and used by a higher-priority symbol resolver" if ok else
               (f"symbols are resolved through {a.split('::')[-1]} before id prefixes, but the shortest-prefix computation "
                f"does not avoid such names: a shown prefix can resolve to that name instead" if a in acc_res else
                f"disambiguate_prefix_with_refs avoids names of a kind no resolver looks up ({a.split('::')[-1]})"))
    # is_absent test on each accessor (a present name blocks the prefix)
    for b in db:
        ab = [c for c in b.calls if not c.cleanup and (c.res or "") == "jj_lib::op_store::RefTarget::is_absent"]
        if ab:
            ctx.ob("C20.c/present-name-blocks-prefix", b.id, len(ab) >= len(acc_dis), f"{len(ab)} is_absent() tests")
    # resolver order: DEFAULT_RESOLVERS chained before the prefix resolvers
    pb = [b for b in F.family_bodies("jj_lib::revset::SymbolResolver::<'a>::partial_resolvers")]
    if ctx.anchor("C20.c", "SymbolResolver::partial_resolvers", pb, 1):
        b = pb[0]
        ctx.fn_seen(b.id)
        sl = F.slicer(b.id)
        ch = [c for c in b.calls if not c.cleanup and name_matches(c.res or c.decl or "", "re:Iterator::chain$|itertools::chain$")]
        ok = False
        for c in ch:
            a0, a1 = show(sl.call_arg(c, 0)), show(sl.call_arg(c, 1))
            if "DEFAULT_RESOLVERS" in a0 and "DEFAULT_RESOLVERS" not in a1 and ("commit_id_resolver" in a1 or "change_id_resolver" in a1):
                ok = True
        ctx.ob("C20.c/names-before-prefixes", b.id, ok, "chain(DEFAULT_RESOLVERS, [commit prefix, change prefix], extensions)" if ok else
               "the resolver order is not names first, then id prefixes")
