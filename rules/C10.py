"""C10  Visible heads are normalized and cover everything referenced.

Clause 1 (dirty-bit typestate): a view can be persisted only with head_normalized == true, and the flag is
true only when heads were computed by the index or loaded from a persisted view.
Clause 2 (referenced => visible): bookmark targets and working-copy commits are added as heads when set.
"""
from jjv.lib import (bodies_with, body_accesses, bool_edges, check_order, field_writers, find_ok_nodes, name_matches,
                     norm, op_const, place_has_field, show, strip, term_calls)

VIEW = "jj_lib::view::View"
SVIEW = "jj_lib::op_store::View"
V = "jj_lib::view::View::"
MR = "jj_lib::repo::MutableRepo::"


def run(ctx):
    F = ctx.F
    ctx.explanation = (
        "Typestate-by-dirty-bit rules over MIR: view::View.head_normalized is written only in {new, set_view, "
        "add_head, remove_head, normalize_heads}, with const false in add/remove and const true only in "
        "normalize_heads after Index::heads (or the <=1 head branches); every method that mutates data.head_ids "
        "clears the flag on all paths or is tabled (replace_heads: precondition checked at its only call site; "
        "normalize_heads); View::new/set_view receive a non-false flag only for a view read from the op store; "
        "store_view_mut is called only by normalize_heads; Transaction::write reaches OpStore::write_view only on the "
        "is_heads_normalized()==true edge and after consume() (which normalizes); write_view has no other caller. "
        "Referenced=>visible: view::View::set_local_bookmark_target / set_wc_commit are only called through the "
        "MutableRepo wrappers, which add the target ids / commit as heads first.")
    ctx.clauses = ["dirty-bit typestate of head normalization", "persist only normalized views",
                   "bookmark targets and working-copy commits are made visible when set"]
    ctx.not_decided = ["that Index::heads computes the right set (C18)", "root-only-when-empty value check",
                       "tags (the property names bookmarks and working copies only)"]
    ctx.assumptions = ["view::View fields are private to the module (checked: visibility)"]
    rule_a(ctx)
    rule_b(ctx)
    rule_c(ctx)
    rule_d(ctx)
    rule_e(ctx)
    rule_f(ctx)
    rule_g(ctx)


def _const_written(body, bb_kind_place):
    """for a write access (bb, 'write', place): the constant assigned, or None"""
    bb, kind, p, ln = bb_kind_place
    for s in body.blocks[bb]["s"]:
        if s["l"] == p and s["r"]["k"] == "use":
            c = op_const(s["r"]["o"])
            if c is not None and "v" in c:
                return c["v"]
    return None


def rule_a(ctx):
    F = ctx.F
    ws = field_writers(F, VIEW, "head_normalized", kinds=("write", "mut", "callret"))
    allowed = {V + "set_view": None, V + "add_head": False, V + "remove_head": False, V + "normalize_heads": True}
    ctx.anchor("C10.a", "writes of view::View.head_normalized", ws, 4)
    seen = set()
    for (b, bb, kind, p, ln) in ws:
        root = b.root
        ctx.fn_seen(b.id)
        seen.add(root)
        if root not in allowed:
            ctx.ob("C10.a/flag-writers", root, False, "head_normalized is written outside the tabled View methods",
                   where=f"{b.file}:{ln}")
            continue
        want = allowed[root]
        val = _const_written(b, (bb, kind, p, ln))
        ok = kind == "write" and (want is None or val is want)
        ctx.ob("C10.a/flag-writers", root, ok,
               f"writes {'parameter' if want is None else val}" if ok else
               f"writes {val!r} ({kind}); expected const {want}", where=f"{b.file}:{ln}")
    for r in allowed:
        if r != V + "set_view":
            ctx.ob("C10.a/flag-writer-present", r, r in seen, "present" if r in seen else
                   "the method no longer updates head_normalized")
    # struct literal only in View::new (+ derived Clone)
    aggs = [r["fn"] for r in F.q("SELECT fn FROM aggregate WHERE adt=?", (VIEW,))]
    bad = [a for a in aggs if a not in (V + "new", "<jj_lib::view::View as std::clone::Clone>::clone")]
    ctx.ob("C10.a/view-literal-only-in-new", VIEW, not bad and (V + "new") in aggs,
           "view::View is built only by View::new (and derived Clone)" if not bad else f"also built in {bad}")
    vis = F.q("SELECT name, vis FROM adt_field WHERE adt=?", (VIEW,))
    priv = all(r["vis"].startswith("in:jj_lib::view") for r in vis)
    ctx.ob("C10.a/fields-private", VIEW, priv and len(vis) >= 2, f"fields {[(r['name'], r['vis']) for r in vis]}")


def rule_b(ctx):
    F = ctx.F
    # every body that mutates view::View.data.head_ids (place goes through View.data then View.head_ids)
    rows = F.q("SELECT DISTINCT fn FROM field_access WHERE adt=? AND field='data'", (VIEW,))
    tabled = {V + "replace_heads": "does not touch the flag by design; precondition checked at its only call site (C10.d)",
              V + "normalize_heads": "sets the flag to true after recomputing heads (C10.b/normalize)"}
    n = 0
    for r in rows:
        b = F.body(r["fn"])
        muts = [(bb, kind, p, ln) for (bb, kind, p, ln) in body_accesses(b)
                if kind in ("mut", "write", "callret") and place_has_field(p, VIEW, "data")
                and (place_has_field(p, SVIEW, "head_ids") or p[-1][2] == "data")]
        if not muts:
            continue
        n += 1
        ctx.fn_seen(b.id)
        root = b.root
        if root in tabled:
            ctx.ob("C10.b/head-mutators-clear-flag", root, True, "tabled: " + tabled[root])
            continue
        if root == V + "set_view" or root == V + "store_view_mut":
            continue  # whole-value replacement: flag is a parameter (C10.c) / accessor (C10.c)
        # must write head_normalized = false on every path to return
        wr = {bb for (bb, kind, p, ln) in body_accesses(b)
              if kind == "write" and place_has_field(p, VIEW, "head_normalized")
              and _const_written(b, (bb, kind, p, ln)) is False}
        p = b.path_avoiding([0], b.return_blocks(), wr)
        ctx.ob("C10.b/head-mutators-clear-flag", root, bool(wr) and p is None,
               "every path to return clears head_normalized" if wr and p is None else
               "a method mutates the head set and can return without clearing head_normalized",
               where=f"{b.file}:{muts[0][3]}")
    ctx.anchor("C10.b", "bodies mutating view::View.data heads", n, 4)
    # normalize_heads: flag := true only after Index::heads succeeded or on the <=1 head branches
    for b in bodies_with(F, V + "normalize_heads", "jj_lib::index::Index::heads"):
        ctx.fn_seen(b.id)
        tw = [bb for (bb, kind, p, ln) in body_accesses(b) if kind == "write"
              and place_has_field(p, VIEW, "head_normalized") and _const_written(b, (bb, kind, p, ln)) is True]
        hs = b.calls_to("jj_lib::index::Index::heads")
        oks = set()
        for h in hs:
            oks |= find_ok_nodes(F, b, h)
        # a failed Index::heads must not reach the store of `true`
        bad = None
        for h in hs:
            bad = bad or b.path_avoiding([h.bb], tw, oks)
        assigns = [bb for (bb, kind, p, ln) in body_accesses(b) if kind == "write" and place_has_field(p, SVIEW, "head_ids")]
        ctx.ob("C10.b/normalize-sets-true-after-index-heads", V + "normalize_heads", bool(tw) and bool(oks) and bad is None
               and bool(assigns),
               "head_ids := Index::heads(..)? and only then head_normalized := true" if bad is None and tw else
               f"head_normalized can become true although Index::heads failed/was skipped: {b.show_path(bad) if bad else ''}")


def rule_c(ctx):
    F = ctx.F
    for callee, idx in ((V + "new", 1), (V + "set_view", 2)):
        sites = F.all_calls_to(callee)
        ctx.anchor("C10.c", f"callers of {callee}", sites, 1)
        for c in sites:
            sl = F.slicer(c.body.id)
            t = strip(sl.call_arg(c, idx))
            is_false = t == ("const", False)
            if callee == V + "new":
                ok = is_false or (t == ("const", True) and c.body.root == "jj_lib::operation::Operation::view")
                if ok and not is_false:
                    data = sl.call_arg(c, 0)
                    ok = any(x[1] == "jj_lib::op_store::OpStore::read_view" for x in term_calls(data))
                why = "flag true only for a view read back from the op store (OpStore::read_view)"
            else:
                ok = is_false
                why = "MutableRepo::set_view passes const false"
            ctx.ob("C10.c/flag-argument", f"{c.body.root}->{callee}", ok, why if ok else
                   f"head_normalized argument is {show(t)} at a site that does not load a stored view", where=c.where())
    sites = F.all_calls_to(V + "store_view_mut")
    for c in sites:
        ok = c.body.root == V + "normalize_heads"
        ctx.ob("C10.c/store_view_mut-callers", c.body.root, ok, "normalize_heads" if ok else
               "store_view_mut (bypasses the dirty bit) called outside normalize_heads", where=c.where())
    ctx.anchor("C10.c", "callers of store_view_mut", sites, 1)


def rule_d(ctx):
    F = ctx.F
    sites = F.all_calls_to(V + "replace_heads")
    ctx.anchor("C10.d", "callers of View::replace_heads", sites, 1)
    for c in sites:
        b = c.body
        ctx.fn_seen(b.id)
        ok_caller = b.root == MR + "add_heads"
        ctx.ob("C10.d/who-may-call", b.root, ok_caller, "MutableRepo::add_heads" if ok_caller else
               "replace_heads (no dirty bit) called from an unexpected function", where=c.where())
        if not ok_caller:
            continue
        # control dependent on Iterator::all(parent in current heads) == true
        alls = [x for x in b.calls if not x.cleanup and name_matches(x.decl or "", "std::iter::Iterator::all")]
        guard = False
        for a in alls:
            trues, falses = bool_edges(F, b, a)
            if trues and b.set_dominated(c.bb, set(trues)):
                # the predicate closure must test membership in the current heads
                sl = F.slicer(b.id)
                pred = sl.call_arg(a, 1)
                clos = [x[1][len("closure:"):] for x in term_calls(pred) if x[1].startswith("closure:")]
                for cl in clos:
                    cb = F.body(cl)
                    if cb and cb.calls_to("re:HashSet.*::contains$"):
                        guard = True
        ctx.ob("C10.d/precondition-checked", MR + "add_heads", guard,
               "replace_heads only on the `all parents are current heads` edge" if guard else
               "replace_heads reachable without the all-parents-are-heads test", where=c.where())
        # arguments are the id and the parent ids of the same commit
        sl = F.slicer(b.id)
        a1, a2 = norm(sl.call_arg(c, 1)), norm(sl.call_arg(c, 2))
        same = (isinstance(a1, tuple) and isinstance(a2, tuple) and a1[0] == "call" and a2[0] == "call"
                and a1[1] == "jj_lib::commit::Commit::id" and a2[1] == "jj_lib::commit::Commit::parent_ids"
                and a1[2] == a2[2])
        ctx.ob("C10.d/replaces-parents-by-child", MR + "add_heads", same,
               f"replace_heads({show(sl.call_arg(c, 1))[:80]}, {show(sl.call_arg(c, 2))[:80]})" if same else
               f"replace_heads arguments are not (commit.id(), commit.parent_ids()) of one commit: "
               f"{show(sl.call_arg(c, 1))[:120]} / {show(sl.call_arg(c, 2))[:120]}", where=c.where())
        # and the commit is indexed first
        check_order(ctx, "C10.d/indexed-before-visible", MR + "add_heads", "jj_lib::index::MutableIndex::add_commit",
                    V + "replace_heads")


def rule_e(ctx):
    F = ctx.F
    WV = "jj_lib::op_store::OpStore::write_view"
    root = "jj_lib::transaction::Transaction::write"
    for b in bodies_with(F, root, WV):
        ctx.fn_seen(b.id)
        for w in b.calls_to(WV):
            tests = b.calls_to(V + "is_heads_normalized")
            ok = False
            for t in tests:
                trues, _ = bool_edges(F, b, t)
                if trues and b.set_dominated(w.bb, set(trues)):
                    ok = True
            ctx.ob("C10.e/persist-only-normalized", root, ok,
                   "write_view is reached only on the is_heads_normalized()==true edge" if ok else
                   "a view can be written without the normalized-heads assertion", where=w.where())
            # the tested view is the one written
            sl = F.slicer(b.id)
            wt = norm(sl.call_arg(w, 1))
            same = False
            for t in tests:
                tt = norm(sl.call_arg(t, 0))
                if isinstance(wt, tuple) and wt[0] == "call" and wt[1] == V + "store_view" and wt[2] and wt[2][0] == tt:
                    same = True
            ctx.ob("C10.e/asserted-view-is-written-view", root, same,
                   f"write_view({show(sl.call_arg(w, 1))[:120]})" if same else
                   "the view asserted normalized is not the view that is written", where=w.where())
    check_order(ctx, "C10.e/consume-normalizes-before-write", root, MR + "consume", WV)
    check_order(ctx, "C10.e/consume-calls-normalize", MR + "consume", MR + "normalize_heads", "re:^std::result::Result::Ok$|Ok",
                ) if False else None
    for b in F.family_bodies(MR + "consume"):
        if b.calls_to(MR + "normalize_heads"):
            ctx.fn_seen(b.id)
            n = b.calls_to(MR + "normalize_heads")[0]
            oks = find_ok_nodes(F, b, n)
            rets = b.return_blocks()
            from jjv.lib import ok_exit_nodes
            okn, errn, other = ok_exit_nodes(F, b)
            good = bool(oks) and all(b.set_dominated(x, oks) for x in okn)
            ctx.ob("C10.e/consume-normalizes", MR + "consume", good and bool(okn),
                   "consume returns Ok only after normalize_heads()? succeeded" if good else
                   "consume can hand out the view without normalizing heads")
    sites = F.all_calls_to(WV)
    for c in sites:
        ok = c.body.root == root
        ctx.ob("C10.e/who-writes-views", c.body.root, ok, "Transaction::write" if ok else
               "OpStore::write_view called outside Transaction::write (bypasses the normalization check)", where=c.where())
    ctx.anchor("C10.e", "callers of OpStore::write_view", sites, 1)


def rule_f(ctx):
    F = ctx.F
    sites = F.all_calls_to(V + "set_local_bookmark_target")
    ctx.anchor("C10.f", "callers of view::View::set_local_bookmark_target", sites, 1)
    for c in sites:
        b = c.body
        ok = b.root == MR + "set_local_bookmark_target"
        ctx.ob("C10.f/who-may-call", b.root, ok, "MutableRepo wrapper" if ok else
               "the view's bookmark setter is called without going through MutableRepo (no heads added)", where=c.where())
        if not ok:
            continue
        ctx.fn_seen(b.id)
        adds = b.calls_to(V + "add_head")
        sl = F.slicer(b.id)
        good = False
        for a in adds:
            t = sl.call_arg(a, 1)
            if any(x[1] == "jj_lib::op_store::RefTarget::added_ids" for x in term_calls(t)):
                tgt = [x for x in term_calls(t) if x[1] == "jj_lib::op_store::RefTarget::added_ids"][0]
                # same target as the one stored
                stored = norm(sl.call_arg(c, 2))
                if norm(tgt[2][0]) == stored or strip(tgt[2][0]) == strip(sl.call_arg(c, 2)):
                    good = True
                else:
                    good = norm(tgt[2][0])[0] == "param" and stored[0] == "param" and norm(tgt[2][0])[1] == stored[1]
        ctx.ob("C10.f/targets-made-visible", MR + "set_local_bookmark_target", good,
               "add_head(id) for id in target.added_ids() of the stored target" if good else
               "bookmark target ids are not added as heads", where=c.where())
        # no path reaches the store of the target around the loop
        if adds:
            loop_calls = b.calls_to("jj_lib::op_store::RefTarget::added_ids")
            ok2 = bool(loop_calls) and b.set_dominated(c.bb, {x.bb for x in loop_calls})
            ctx.ob("C10.f/loop-precedes-store", MR + "set_local_bookmark_target", ok2,
                   "added_ids() iteration precedes the store on every path" if ok2 else "store reachable around the loop")


def rule_g(ctx):
    F = ctx.F
    sites = F.all_calls_to(V + "set_wc_commit")
    ctx.anchor("C10.g", "callers of view::View::set_wc_commit", sites, 2)
    for c in sites:
        ok = c.body.root in (MR + "set_wc_commit", MR + "merge_wc_commit")
        ctx.ob("C10.g/who-may-call", c.body.root, ok, "MutableRepo wrapper / merge" if ok else
               "the view's working-copy pointer is set outside MutableRepo::{set_wc_commit, merge_wc_commit}",
               where=c.where())
    check_order(ctx, "C10.g/edit-adds-head-first", MR + "edit", MR + "add_head", MR + "set_wc_commit")
    # every other caller of the public MutableRepo::set_wc_commit passes the id of a commit it just wrote
    # (CommitBuilder::write adds the head) -- frozen table of callers
    callers = {
        MR + "edit": "add_head dominates (rule above)",
        "jj_cli::cli_util::WorkspaceCommandHelper::finish_transaction": "id of CommitBuilder::write(new_commit(..))",
        "jj_cli::cli_util::WorkspaceCommandHelper::snapshot_working_copy": "id of CommitBuilder::write(..)",
        "jj_lib::working_copy::create_and_check_out_recovery_commit": "id of CommitBuilder::write(new_commit(..))",
    }
    sites = F.all_calls_to(MR + "set_wc_commit")
    ctx.anchor("C10.g", "callers of MutableRepo::set_wc_commit", sites, 4)
    for c in sites:
        root = c.body.root
        if root not in callers:
            ctx.ob("C10.g/set_wc_commit-callers", root, False,
                   "new caller of MutableRepo::set_wc_commit: must be shown to make the commit visible first",
                   where=c.where())
            continue
        if root == MR + "edit":
            ctx.ob("C10.g/set_wc_commit-callers", root, True, callers[root])
            continue
        sl = F.slicer(c.body.id)
        t = sl.call_arg(c, 2)
        from jjv.lib import alts
        ok = True
        for alt in alts(t):
            n = norm(alt)
            good = (isinstance(n, tuple) and n[0] == "call" and n[1] == "jj_lib::commit::Commit::id" and
                    any(name_matches(x[1], "re:^jj_lib::commit_builder::CommitBuilder::<'_>::write$|"
                                           "^jj_lib::commit_builder::CommitBuilder::write$") for x in term_calls(alt)))
            ok &= bool(good)
        ctx.ob("C10.g/set_wc_commit-callers", root, ok, callers[root] if ok else
               f"working-copy commit id does not come from a commit just written: {show(t)[:200]}", where=c.where())
