"""C45  Pushing never overwrites remote changes jj has not seen (every push is leased on the recorded position).

a. `git push` is spawned only by GitSubprocessContext::spawn_push <- git::push_updates <- tabled callers
b. spawn_push passes one --force-with-lease=<dst>:<expected> per ref (from RefToPush::to_git_lease) and non-forced
   refspecs, over the same slice; no bare --force / -f / + refspec
c. RefToPush is built only by RefToPush::new with the expectation looked up by the refspec's destination; push_updates
   fills that map with (update.qualified_name -> update.targets.before) and the refspec for the same name
d. after the push, jj's record of a remote ref is updated only for refs git reported as pushed; the result of each ref
   is looked up by pairing `targets.bookmarks` / `targets.tags` positionally with the vector of ref updates, so that
   vector must be built from them in order (map/chain only: no sort, filter, dedup, reverse) and split at
   bookmarks.len()
"""
from jjv.lib import (format_shape, format_sites, name_matches, norm, show, strip, term_calls, term_fields, term_leaves,
                     walk)

G = "jj_lib::git::"
SP = "jj_lib::git_subprocess::GitSubprocessContext::spawn_push"
RTP = G + "RefToPush"


def run(ctx):
    ctx.explanation = (
        "Who-may-call, table and provenance rules: the only function that passes the constant \"push\" to "
        "Command::args is spawn_push, called only from git::push_updates, called only from push_refs and the gerrit "
        "upload; spawn_push formats `--force-with-lease={}` from RefToPush::to_git_lease and uses "
        "RefSpec::to_git_format_not_forced, both mapped over the `references` parameter, with no forcing flag or "
        "forced format; to_git_lease prints destination:expected_location; RefToPush is constructed only in "
        "RefToPush::new from the map lookup keyed by the refspec destination; push_updates inserts "
        "(qualified_name, targets.before) of the same update it builds the refspec from; push_refs updates remote "
        "bookmarks/tags only through closures filtered by membership in push_stats.pushed and keeps before/after "
        "un-swapped.")
    ctx.clauses = ["single push site", "lease on every pushed ref, nothing forced", "lease value is the recorded position",
                   "rejected refs leave jj's record unchanged"]
    ctx.not_decided = ["git's own --force-with-lease semantics", "parsing of the porcelain output",
                       "that the CLI computes targets.before from the tracked remote ref (checked for push_refs only)"]
    rule_a(ctx)
    rule_b(ctx)
    rule_c(ctx)
    rule_d(ctx)
    rule_e(ctx)


def rule_a(ctx):
    F = ctx.F
    rows = F.q("SELECT DISTINCT root FROM str_const WHERE v='push'")
    spawners = []
    for r in rows:
        root = r["root"]
        fam = F.family_bodies(root)
        if any(name_matches(c.res or c.decl or "", "re:process::Command::(arg|args)$") for b in fam for c in b.calls if not c.cleanup):
            spawners.append(root)
    ctx.anchor("C45.a", "functions passing \"push\" to a Command", spawners, 1)
    for s in spawners:
        ctx.ob("C45.a/single-push-site", s, s == SP, "GitSubprocessContext::spawn_push" if s == SP else
               "`git push` is spawned outside spawn_push (no lease arguments there)")
    for callee, allowed in ((SP, {G + "push_updates"}),
                            (G + "push_updates", {G + "push_refs", "jj_cli::commands::gerrit::upload::cmd_gerrit_upload"})):
        sites = F.all_calls_to(callee)
        ctx.anchor("C45.a", f"callers of {callee.split('::')[-1]}", sites, 1)
        for c in sites:
            ok = c.body.root in allowed
            ctx.ob("C45.a/who-may-push", f"{c.body.root}->{callee.split('::')[-1]}", ok, "tabled caller" if ok else
                   "new caller of the raw push machinery", where=c.where())


def rule_b(ctx):
    F = ctx.F
    fam = F.family_bodies(SP)
    if not ctx.anchor("C45.b", SP, fam, 1):
        return
    ctx.fn_seen(*[b.id for b in fam])
    lease_closure = None
    for b in fam:
        for c, pieces in format_sites(F, b):
            if pieces and format_shape(pieces) == "--force-with-lease={}":
                arg = [p[1] for p in pieces if p[0] == "arg"][0]
                if any(x[1] == RTP + "::<'a>::to_git_lease" or x[1].endswith("RefToPush::<'a>::to_git_lease") for x in term_calls(arg)):
                    lease_closure = b.id
    ctx.ob("C45.b/lease-argument", SP, lease_closure is not None,
           "--force-with-lease={to_git_lease(ref)} is formatted per reference" if lease_closure else
           "spawn_push no longer passes --force-with-lease built from RefToPush::to_git_lease")
    names = [c.res or c.decl or "" for b in fam for c in b.calls if not c.cleanup]
    nf = any(n.endswith("RefSpec::to_git_format_not_forced") for n in names)
    forced = [n for n in names if n.endswith("RefSpec::to_git_format")]
    ctx.ob("C45.b/refspecs-not-forced", SP, nf and not forced, "refspecs use to_git_format_not_forced" if nf and not forced else
           "spawn_push passes forced refspecs (`+src:dst` ignores the lease)")
    consts = {r["v"] for r in F.q("SELECT v FROM str_const WHERE root=?", (SP,))} | {r["v"] for r in F.q("SELECT v FROM lit WHERE root=?", (SP,))}
    bad = sorted(c for c in consts if c in ("--force", "-f", "--force-if-includes") or c.startswith("+"))
    ctx.ob("C45.b/no-force-flag", SP, not bad, "no --force/-f/+ constants" if not bad else f"forcing constants present: {bad}")
    # both argument lists are mapped over the `references` parameter
    main = F.body(SP)
    sl = F.slicer(SP)
    ok_lists = 0
    for c in main.calls:
        if c.cleanup or not name_matches(c.res or c.decl or "", "re:process::Command::args$"):
            continue
        t = sl.call_arg(c, 1)
        clos = [x[1][8:] for x in term_calls(t) if x[1].startswith("closure:")]
        over_refs = any(l[0] == "param" and l[2] == "references" for l in term_leaves(t))
        if over_refs and clos:
            # nothing but iter().map(..) between `references` and the argument list: every ref gets an entry
            extra = [x[1] for x in term_calls(t) if not x[1].startswith("closure:") and not name_matches(
                x[1], ("re:slice.*::iter$", "re:Iterator::map$", "re:::into_iter$", "re:::deref$"))]
            if extra:
                ctx.ob("C45.b/one-entry-per-reference", SP, False,
                       f"an argument list derived from `references` is filtered/truncated ({[e.split('::')[-1] for e in extra]}): "
                       f"some pushed refs get no lease", where=c.where())
            else:
                ok_lists += 1
    ctx.ob("C45.b/lease-and-refspec-over-same-refs", SP, ok_lists >= 2,
           f"{ok_lists} Command::args lists are mapped over `references`" if ok_lists >= 2 else
           "the lease list and the refspec list are not both derived from `references`")
    # to_git_lease prints destination:expected
    for fid in F.find_fns("re:RefToPush::<'a>::to_git_lease$"):
        b = F.body(fid)
        ok = False
        for c, pieces in format_sites(F, b):
            if pieces and format_shape(pieces) == "{}:{}":
                a = [p[1] for p in pieces if p[0] == "arg"]
                f0 = {f for (_, f) in term_fields(a[0])}
                f1 = {f for (_, f) in term_fields(a[1])}
                ok = "destination" in f0 and "expected_location" in f1
        ctx.ob("C45.b/lease-format", fid, ok, "lease = <refspec.destination>:<expected_location or empty>" if ok else
               "to_git_lease no longer prints destination:expected_location")


def rule_c(ctx):
    F = ctx.F
    aggs = F.q("SELECT fn FROM aggregate WHERE adt=?", (RTP,))
    fns = sorted({r["fn"] for r in aggs})
    ctx.anchor("C45.c", "RefToPush construction sites", fns, 1)
    for fid in fns:
        ok = fid.endswith("RefToPush::<'a>::new")
        ctx.ob("C45.c/who-may-construct", fid, ok, "RefToPush::new" if ok else "RefToPush built outside RefToPush::new "
               "(expected_location not taken from the recorded positions)")
        if not ok:
            continue
        b = F.body(fid)
        sl = F.slicer(fid)
        for i, blk in enumerate(b.blocks):
            for s in blk["s"]:
                rv = s["r"]
                if rv["k"] == "agg" and rv.get("adt") == RTP:
                    f = dict(zip(rv["fields"], rv["o"]))
                    te = sl.operand(f["expected_location"], at=i)
                    get = [x for x in term_calls(te) if name_matches(x[1], "re:HashMap.*::get$")]
                    good = bool(get) and any(l[0] == "param" and l[2] == "expected_locations" for l in term_leaves(get[0][2][0])) \
                        and any(w[0] == "field" and w[3] == "destination" for w in walk(get[0][2][1]))
                    ctx.ob("C45.c/expectation-looked-up-by-destination", fid, good,
                           "expected_location = expected_locations[refspec.destination]" if good else
                           f"expected_location = {show(te)[:140]}")
    # push_updates fills the map with (qualified_name, targets.before) of each update
    pu = F.body(G + "push_updates")
    if ctx.anchor("C45.c", G + "push_updates", 1 if pu else 0, 1):
        ctx.fn_seen(pu.id)
        sl = F.slicer(pu.id)
        ins = [c for c in pu.calls if not c.cleanup and name_matches(c.res or c.decl or "", "re:HashMap.*::insert$")]
        ok = False
        for c in ins:
            k, v = sl.call_arg(c, 1), sl.call_arg(c, 2)
            fk = {f for (_, f) in term_fields(k)}
            fv = [w[3] for w in walk(v) if w[0] == "field"]
            if "qualified_name" in fk and "before" in fv and "after" not in fv and "targets" in fv:
                ok = True
        ctx.ob("C45.c/expected-is-recorded-before", G + "push_updates", ok,
               "map[update.qualified_name] = update.targets.before" if ok else
               "the lease expectation is not the recorded `before` position of the same update")
        new_calls = [c for c in pu.calls if not c.cleanup and name_matches(c.res or c.decl or "", "re:RefSpec::(forced|delete)$")]
        okd = bool(new_calls) and all("qualified_name" in {f for (_, f) in term_fields(sl.call_arg(c, len(c.args) - 1))} for c in new_calls)
        ctx.ob("C45.c/refspec-destination-is-same-name", G + "push_updates", okd,
               "refspec destination = update.qualified_name" if okd else "refspec destination differs from the leased name")
        fam = F.family_bodies(G + "push_updates")
        mk = any(name_matches(c.res or c.decl or "", "re:RefToPush::<'a>::new$") for b in fam for c in b.calls if not c.cleanup)
        ctx.ob("C45.c/every-refspec-gets-a-lease", G + "push_updates", mk, "refs_to_push = refspecs.map(RefToPush::new)" if mk
               else "push_updates no longer pairs every refspec with its expectation")


def rule_d(ctx):
    F = ctx.F
    root = G + "push_refs"
    fam = F.family_bodies(root)
    if not ctx.anchor("C45.d", root, fam, 3):
        return
    main = F.body(root)
    ctx.fn_seen(*[b.id for b in fam])
    sl = F.slicer(root)
    # closures that filter by `pushed.contains(..)`
    filt = set()
    for b in fam:
        if any(name_matches(c.res or c.decl or "", "re:HashSet.*::contains$") for c in b.calls if not c.cleanup):
            filt.add(b.id)
    ctx.anchor("C45.d", "closures testing pushed.contains(..)", filt, 2)

    def guarded(t):
        # the value comes out of a closure (pushed_*_updates) whose family member filters by `pushed`
        for x in term_calls(t):
            if x[1].startswith("closure:"):
                cid = x[1][8:]
                kids = [f for f in filt if f.startswith(cid + "::")]
                if kids or cid in filt:
                    return True
        return False
    for callee in ("jj_lib::repo::MutableRepo::set_remote_bookmark", "jj_lib::repo::MutableRepo::set_remote_tag"):
        cs = [c for c in main.calls if not c.cleanup and (c.res or "") == callee]
        ctx.anchor("C45.d", f"{callee.split('::')[-1]} in push_refs", cs, 1)
        for c in cs:
            t = sl.call_arg(c, 1)
            ok = guarded(t)
            ctx.ob("C45.d/record-updated-only-for-pushed", callee.split("::")[-1], ok,
                   "the symbol comes from pushed_*_updates(), filtered by push_stats.pushed" if ok else
                   f"jj's record of the remote ref is updated for refs git may have rejected: {show(t)[:120]}", where=c.where())
    # `pushed` derives from push_stats.pushed
    okp = False
    for c in main.calls:
        if not c.cleanup and name_matches(c.res or c.decl or "", "re:Iterator::collect$|::collect$"):
            t = sl.call_arg(c, 0)
            if any(w[0] == "field" and w[3] == "pushed" for w in walk(t)) and \
                    any(x[1] == G + "push_updates" for x in term_calls(t)):
                okp = True
    ctx.ob("C45.d/pushed-set-from-git-output", root, okp, "pushed = push_updates(..)?.pushed" if okp else
           "the set of accepted refs does not come from the push result")
    # tag updates keep before/after un-swapped
    for b in fam:
        sl2 = F.slicer(b.id)
        for i, blk in enumerate(b.blocks):
            for s in blk["s"]:
                rv = s["r"]
                if rv["k"] == "agg" and (rv.get("adt") or "").endswith("merge::Diff") and rv.get("fields") == ["before", "after"]:
                    tb = sl2.operand(rv["o"][0], at=i)
                    ta = sl2.operand(rv["o"][1], at=i)
                    fb = [w[3] for w in walk(tb) if w[0] == "field" and w[3] in ("before", "after")]
                    fa = [w[3] for w in walk(ta) if w[0] == "field" and w[3] in ("before", "after")]
                    if fb or fa:
                        ok = set(fb) <= {"before"} and set(fa) <= {"after"}
                        ctx.ob("C45.d/before-after-not-swapped", b.id, ok, "Diff{before: ..before.., after: ..after..}" if ok
                               else "the recorded (before) and new (after) positions are swapped when building the update")


ORDER_PRESERVING = ("re:^std::iter::Iterator::(map|cloned|copied|by_ref)$", "re:^itertools::(chain|Itertools::collect_vec)$",
                    "re:^std::iter::(Iterator::chain|Iterator::collect|IntoIterator::into_iter|zip)$",
                    "re:^core::slice::<impl \\[T\\]>::iter$", "re:::deref$", "re:::index$", "re:^std::vec::Vec::<.*>::len$",
                    "re:^closure:", "re:::as_ref$", "re:::clone$")


def rule_e(ctx):
    """positional pairing of targets.* with ref_updates in push_refs"""
    F = ctx.F
    root = G + "push_refs"
    n = 0
    for b in F.family_bodies(root):
        sl = F.slicer(b.id)
        for c in b.calls:
            if c.cleanup or not name_matches(c.res or c.decl or "", "re:^std::iter::zip$|Iterator::zip$"):
                continue
            a0, a1 = sl.call_arg(c, 0), sl.call_arg(c, 1)
            f0 = {w[3] for w in walk(a0) if w[0] == "field" and w[3] in ("bookmarks", "tags")}
            if len(f0) != 1:
                continue
            which = next(iter(f0))
            n += 1
            ctx.fn_seen(b.id)
            # the other side: a slice of collect(chain(map(iter(targets.bookmarks)), map(iter(targets.tags))))
            bad = sorted({x[1].split("::")[-1] for x in term_calls(a1)
                          if (x[1].startswith("std::iter::") or x[1].startswith("itertools::") or "slice" in x[1] or
                              x[1].startswith("std::vec::Vec")) and not name_matches(x[1], ORDER_PRESERVING)})
            muts = sorted({str(w[2]) if len(w) > 2 else "?" for w in walk(a1) if w[0] == "mut"})
            ctx.ob("C45.d/result-pairing-preserves-order", f"{b.id}|{which}", not bad,
                   f"ref updates paired with targets.{which} are built by order-preserving adapters only" if not bad else
                   f"the vector zipped with targets.{which} is reordered/narrowed by {bad}: git's per-ref verdict is then "
                   f"attributed to a different bookmark (a rejected one is recorded as pushed)", where=c.where())
            chains = [x for x in term_calls(a1) if name_matches(x[1], "re:^itertools::chain$|Iterator::chain$")]
            okc = False
            for ch in chains:
                l = {w[3] for w in walk(ch[2][0]) if w[0] == "field" and w[3] in ("bookmarks", "tags")}
                r = {w[3] for w in walk(ch[2][1]) if w[0] == "field" and w[3] in ("bookmarks", "tags")}
                okc = l == {"bookmarks"} and r == {"tags"}
            rng = [w for w in walk(a1) if w[0] == "agg" and ("RangeTo" in str(w[1]) or "RangeFrom" in str(w[1]))]
            okr = False
            for w in rng:
                bound = {v[3] for v in walk(w) if v[0] == "field" and v[3] in ("bookmarks", "tags")}
                kind = "RangeTo" if "RangeTo" in str(w[1]) else "RangeFrom"
                okr = bound == {"bookmarks"} and ((which == "bookmarks" and kind == "RangeTo") or (which == "tags" and kind == "RangeFrom"))
            ctx.ob("C45.d/result-pairing-split", f"{b.id}|{which}", okc and okr,
                   f"chain(bookmarks, tags) split at bookmarks.len(): {which} use the {'first' if which == 'bookmarks' else 'second'} part"
                   if okc and okr else "the ref-update vector is not chain(bookmark updates, tag updates) split at bookmarks.len()")
    ctx.anchor("C45.d", "positional zips of targets.* with ref updates", n, 2)
