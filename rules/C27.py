"""C27  Sparse patterns change the disk, never the commit (confinement).

a. the snapshot matcher is sparse_matcher() INTERSECTED with everything else
b. deleted files are reported only after the matcher accepted the path
c. TreeState.tree is written only by read/snapshot/check_out/reset/recover/constructor -- not by
   set_sparse_patterns nor update
d. set_sparse_patterns materialises (new - old) from the current tree and removes (old - new), against the
   unchanged tree, and records the new patterns only after both updates succeeded
"""
from jjv.lib import (bodies_with, body_accesses, find_ok_nodes, name_matches, norm, place_has_field, show, strip,
                     term_calls, term_fields, term_leaves, walk)

LW = "jj_lib::local_working_copy::"
TS = LW + "TreeState"
SNAP = "jj_lib::local_working_copy::FileSnapshotter"


def run(ctx):
    F = ctx.F
    ctx.explanation = (
        "Provenance / who-may-write rules: the matcher stored in FileSnapshotter by TreeState::snapshot is "
        "IntersectionMatcher::new(self.sparse_matcher(), ..); emit_deleted_files sends a path only through an iterator "
        "chain whose filter closure calls Matcher::matches on that matcher; TreeState.tree has a frozen writer set that "
        "excludes set_sparse_patterns and update; set_sparse_patterns calls update(empty, tree, new-old) then "
        "update(tree, empty, old-new) with tree = clone of the current tree and stores the new patterns only after both "
        "succeeded.")
    ctx.clauses = ["snapshot confined to the sparse patterns", "deletions confined to the sparse patterns",
                   "sparse changes never write the working-copy tree", "added = new-old, removed = old-new on the same tree"]
    ctx.not_decided = ["exactness of the added/removed file sets (matcher algebra, C30)"]
    rule_a(ctx)
    rule_b(ctx)
    rule_c(ctx)
    rule_d(ctx)


def rule_a(ctx):
    F = ctx.F
    found = False
    for b in F.family_bodies(TS + "::snapshot"):
        sl = None
        for i, blk in enumerate(b.blocks):
            for s in blk["s"]:
                rv = s["r"]
                if rv["k"] == "agg" and rv.get("adt") == SNAP:
                    found = True
                    ctx.fn_seen(b.id)
                    sl = sl or F.slicer(b.id)
                    t = sl.operand(dict(zip(rv["fields"], rv["o"]))["matcher"], at=i)
                    inter = [x for x in term_calls(t) if name_matches(x[1], "re:matchers::IntersectionMatcher.*::new$")]
                    ok = bool(inter) and strip(t)[0] == "call" and any(
                        any(name_matches(y[1], "re:TreeState::sparse_matcher$") for y in term_calls(a)) for a in inter[0][2])
                    # the top-level matcher must be the intersection itself (not a union that contains it)
                    top = strip(t)
                    ok = ok and isinstance(top, tuple) and top[0] == "call" and name_matches(top[1], "re:IntersectionMatcher.*::new$")
                    ctx.ob("C27.a/snapshot-matcher-intersects-sparse", TS + "::snapshot", ok,
                           f"matcher = {show(t)[:160]}" if ok else
                           f"the snapshot matcher is not an intersection with the sparse matcher: {show(t)[:200]}")
    ctx.anchor("C27.a", "FileSnapshotter literal in TreeState::snapshot", 1 if found else 0, 1)


def rule_b(ctx):
    F = ctx.F
    root = SNAP + "::<'_>::emit_deleted_files"
    fam = F.family_bodies(root)
    if not ctx.anchor("C27.b", root, fam, 2):
        return
    ctx.fn_seen(*[b.id for b in fam])
    senders = [b for b in fam if any(name_matches(c.res or c.decl or "", "re:Sender.*::send$") for c in b.calls if not c.cleanup)]
    matchers = []
    for b in fam:
        sl = F.slicer(b.id)
        for c in b.calls:
            if not c.cleanup and c.decl == "jj_lib::matchers::Matcher::matches":
                if (SNAP, "matcher") in term_fields(sl.call_arg(c, 0)):
                    matchers.append(b.id)
    ctx.anchor("C27.b", "closure sending deleted paths", senders, 1)
    ctx.anchor("C27.b", "closure testing self.matcher.matches(path)", matchers, 1)
    main = F.body(root)
    sl = F.slicer(root)
    ok = False
    detail = "the send is not downstream of the matcher filter"
    for c in main.calls:
        if c.cleanup or not name_matches(c.res or c.decl or "", "re:::try_for_each$|::for_each$"):
            continue
        recv = sl.call_arg(c, 0)
        fn_arg = sl.call_arg(c, 1)
        sends_here = any(x[1].startswith("closure:") and x[1][8:] in [s.id for s in senders] for x in term_calls(fn_arg))
        filt = [x for x in term_calls(recv) if name_matches(x[1], "re:::filter$") and len(x[2]) > 1 and
                any(y[1].startswith("closure:") and y[1][8:] in matchers for y in term_calls(x[2][1]))]
        if sends_here and filt:
            ok = True
            detail = "try_for_each(send) consumes filter(|p| self.matcher.matches(p))"
    ctx.ob("C27.b/deletions-filtered-by-matcher", root, ok, detail)
    # the filter keeps matching paths (not the negation)
    for m in set(matchers):
        b = F.body(m)
        from jjv.lib import ok_exit_nodes
        neg = any(s["r"]["k"] == "un" and s["r"]["op"] == "Not" for blk in b.blocks for s in blk["s"])
        ctx.ob("C27.b/filter-polarity", m, not neg, "closure returns matches(path)" if not neg else
               "the filter closure negates the matcher")


def rule_c(ctx):
    F = ctx.F
    allowed = {TS + "::read", TS + "::snapshot", TS + "::check_out", TS + "::reset", TS + "::recover", TS + "::empty",
               TS + "::init", TS + "::load"}
    rows = F.q("SELECT DISTINCT fn FROM field_access WHERE adt=? AND field='tree'", (TS,))
    n = 0
    for r in rows:
        b = F.body(r["fn"])
        ws = [(bb, k, p, ln) for (bb, k, p, ln) in body_accesses(b) if k in ("write", "mut", "callret")
              and place_has_field(p, TS, "tree")]
        if not ws:
            continue
        n += 1
        ctx.ob("C27.c/tree-writers", b.root, b.root in allowed, "tabled writer of TreeState.tree" if b.root in allowed else
               "TreeState.tree is written by a function that must only touch the disk", where=f"{b.file}:{ws[0][3]}")
    ctx.anchor("C27.c", "writers of TreeState.tree", n, 4)


def rule_d(ctx):
    F = ctx.F
    root = TS + "::set_sparse_patterns"
    b = F.body(root)
    if not ctx.anchor("C27.d", root, 1 if b else 0, 1):
        return
    ctx.fn_seen(root)
    sl = F.slicer(root)
    ups = [c for c in b.calls if not c.cleanup and (c.res or "") == TS + "::update"]
    if not ctx.anchor("C27.d", "update calls in set_sparse_patterns", ups, 2):
        return

    def kind(t):
        """'tree' = clone of self.tree, 'empty' = store.empty_merged_tree()"""
        names = {x[1] for x in term_calls(t)}
        if any(name_matches(n, "re:Store::empty_merged_tree$") for n in names):
            return "empty"
        if (TS, "tree") in term_fields(t):
            return "tree"
        return "?"

    def diff(t):
        d = [x for x in term_calls(t) if name_matches(x[1], "re:DifferenceMatcher.*::new$")]
        if not d:
            return "?"
        def side(a):
            if any(name_matches(x[1], "re:DifferenceMatcher.*::new$") for x in term_calls(a)):
                return "?"
            if any(l[0] == "param" and l[2] == "sparse_patterns" for l in term_leaves(a)):
                return "new"
            if (TS, "sparse_patterns") in term_fields(a):
                return "old"
            return "?"
        return f"{side(d[0][2][0])}-{side(d[0][2][1])}"
    shapes = [(kind(sl.call_arg(c, 1)), kind(sl.call_arg(c, 2)), diff(sl.call_arg(c, 3))) for c in ups]
    want = {("empty", "tree", "new-old"), ("tree", "empty", "old-new")}
    ctx.ob("C27.d/update-roles", root, set(shapes) == want, f"update calls: {shapes}" if set(shapes) == want else
           f"set_sparse_patterns does not add (new-old) from the tree and remove (old-new): {shapes}")
    # new patterns recorded only after both updates succeeded
    ws = [bb for (bb, k, p, ln) in body_accesses(b) if k == "write" and place_has_field(p, TS, "sparse_patterns")]
    oks = [find_ok_nodes(F, b, c) for c in ups]
    good = bool(ws) and all(o and all(b.set_dominated(w, o) for w in ws) for o in oks)
    ctx.ob("C27.d/patterns-recorded-after-success", root, good,
           "self.sparse_patterns is assigned only after both updates returned Ok" if good else
           "the sparse patterns are recorded although a disk update failed or did not run")
