"""C29  Line-ending conversion round-trips normalized content (conversion applied at every I/O site).

a. snapshot side: what reaches Store::write_file / conflicts::update_from_content from a working-copy file went
   through TargetEolStrategy::convert_eol_for_snapshot(File::open(disk_path))
b. in the working-copy module, Store::write_file has one caller and working-copy file contents are opened for
   snapshotting only at the tabled sites
c. update side: write_conflict always converts before copying; write_file converts exactly on the
   apply_eol_conversion edge; the flag is const true for file contents and const false only for the
   symlink-as-file fallback
d. mode table inside eol.rs: snapshot converts (to LF) exactly for Input and InputOutput, update converts (to CRLF)
   exactly for InputOutput and passes stored bytes through for None and Input; on both sides the binary probe selects
   PassThrough on its true edge, and the probed prefix is chained back in front of the rest before conversion;
   convert_eol returns its input untouched for PassThrough
"""
from jjv.lib import (bodies_with, bool_edges, name_matches, op_place, show, strip, term_calls, walk)

LW = "jj_lib::local_working_copy::"
SNAPCONV = "jj_lib::eol::TargetEolStrategy::convert_eol_for_snapshot"
UPDCONV = "jj_lib::eol::TargetEolStrategy::convert_eol_for_update"
OPEN = ("std::fs::File::open", "std::fs::read", "std::fs::read_to_string")


def run(ctx):
    ctx.explanation = (
        "Provenance rules: in write_file_to_store the reader given to Store::write_file, and in the conflict branch of "
        "write_path_to_store the bytes given to conflicts::update_from_content, derive from "
        "convert_eol_for_snapshot(File::open(disk_path)); Store::write_file has no other caller in the module and "
        "working-copy contents are opened only at three tabled sites; write_conflict copies "
        "convert_eol_for_update(contents); write_file copies the converted stream on the apply_eol_conversion==true "
        "edge and the raw stream on the false edge; the two call sites pass const true (file) and const false "
        "(symlink stored as a file).")
    ctx.clauses = ["every snapshot read is converted", "no unconverted read site", "every content write is converted",
                   "conversion flag per value kind"]
    ctx.not_decided = ["the converter's byte-level behaviour", "binary probing", "that convert_for_update∘convert_for_snapshot "
                       "is the identity on normalized text"]
    rule_a(ctx)
    rule_b(ctx)
    rule_c(ctx)
    rule_d(ctx)


def _has_conv_of_open(t, conv):
    for x in term_calls(t):
        if x[1] == conv and len(x[2]) > 1:
            if any(name_matches(y[1], OPEN) for y in term_calls(x[2][1])):
                return True
    return False


def rule_a(ctx):
    F = ctx.F
    root = LW + "FileSnapshotter::<'_>::write_file_to_store"
    bs = bodies_with(F, root, "jj_lib::store::Store::write_file")
    ctx.anchor("C29.a", "write_file_to_store -> Store::write_file", bs, 1)
    for b in bs:
        ctx.fn_seen(b.id)
        sl = F.slicer(b.id, with_mutators=True)
        for c in b.calls_to("jj_lib::store::Store::write_file"):
            if c.decl == "futures::Future::poll":
                continue
            t = sl.call_arg(c, 2)
            ok = _has_conv_of_open(t, SNAPCONV)
            ctx.ob("C29.a/stored-file-is-converted", root, ok, f"contents = {show(t)[:160]}" if ok else
                   f"file contents reach the store without convert_eol_for_snapshot: {show(t)[:200]}", where=c.where())
    root2 = LW + "FileSnapshotter::<'_>::write_path_to_store"
    bs = bodies_with(F, root2, "jj_lib::conflicts::update_from_content")
    ctx.anchor("C29.a", "write_path_to_store -> update_from_content", bs, 1)
    for b in bs:
        ctx.fn_seen(b.id)
        sl = F.slicer(b.id, with_mutators=True)
        for c in b.calls_to("jj_lib::conflicts::update_from_content"):
            if c.decl == "futures::Future::poll":
                continue
            t = sl.call_arg(c, 3)
            ok = _has_conv_of_open(t, SNAPCONV)
            ctx.ob("C29.a/conflict-content-is-converted", root2, ok, f"contents = {show(t)[:160]}" if ok else
                   f"conflict file contents are parsed without EOL conversion: {show(t)[:200]}", where=c.where())


def rule_b(ctx):
    F = ctx.F
    sites = [c for c in F.all_calls_to("jj_lib::store::Store::write_file", crates=("jj_lib",))
             if c.body.root.startswith(LW)]
    ctx.anchor("C29.b", "Store::write_file call sites in local_working_copy", sites, 1)
    for c in sites:
        ok = c.body.root == LW + "FileSnapshotter::<'_>::write_file_to_store"
        ctx.ob("C29.b/who-stores-file-contents", c.body.root, ok, "write_file_to_store" if ok else
               "file contents are stored from a function that does not apply the EOL conversion", where=c.where())
    snap = F.cg.cone([LW + "TreeState::snapshot"], crates=("jj_lib",))
    allowed = {LW + "FileSnapshotter::<'_>::write_file_to_store": "converted (C29.a)",
               LW + "FileSnapshotter::<'_>::write_path_to_store": "conflict branch, converted (C29.a)",
               LW + "FileSnapshotter::<'_>::write_symlink_to_store": "reads a link target stored as a file; exempt by design"}
    opens = [c for c in F.all_calls_to(OPEN, crates=("jj_lib",)) if c.body.root.startswith(LW) and c.body.root in snap]
    n = 0
    for c in opens:
        if not c.body.root.startswith(LW + "FileSnapshotter"):
            continue
        n += 1
        ok = c.body.root in allowed
        ctx.ob("C29.b/content-read-sites", f"{c.body.root}->{c.res}", ok, allowed.get(c.body.root, "") if ok else
               "working-copy file contents are read at a site that is not known to convert line endings", where=c.where())
    ctx.anchor("C29.b", "content read sites in the snapshotter", n, 3)


def rule_c(ctx):
    F = ctx.F
    COPY = "re:^jj_lib::file_util::copy_async_to_sync$"
    for root, always in ((LW + "TreeState::write_conflict", True), (LW + "TreeState::write_file", False)):
        bs = bodies_with(F, root, COPY)
        ctx.anchor("C29.c", f"{root}: copy_async_to_sync", bs, 1)
        for b in bs:
            ctx.fn_seen(b.id)
            sl = F.slicer(b.id)
            for c in b.calls_to(COPY):
                if c.decl == "futures::Future::poll":
                    continue
                t = sl.call_arg(c, 0)
                conv = any(x[1] == UPDCONV for x in term_calls(t))
                if always:
                    from jjv.lib import alts
                    ok = all(any(x[1] == UPDCONV for x in term_calls(a)) for a in alts(t))
                    ctx.ob("C29.c/conflict-write-converted", root, ok, f"copies {show(t)[:140]}" if ok else
                           f"conflict contents are written without convert_eol_for_update: {show(t)[:180]}", where=c.where())
                else:
                    # conversion exactly on the apply_eol_conversion==true edge
                    convs = [x for x in b.calls_to(UPDCONV) if x.decl != "futures::Future::poll"]
                    flag_edges_t, flag_edges_f = set(), set()
                    for bb, tsw in b.switches():
                        p = op_place(tsw["o"])
                        if p is None:
                            continue
                        tt = strip(sl.place(p, at=bb))
                        name = tt[2] if isinstance(tt, tuple) and tt[0] == "param" else None
                        if name is None and isinstance(tt, tuple) and tt[0] == "upvar":
                            name = None
                        if name == "apply_eol_conversion" or (isinstance(tt, tuple) and tt[0] == "param" and "apply_eol" in (tt[2] or "")):
                            flag_edges_f.add(b.edge_node(bb, 0))
                            flag_edges_t.add(b.edge_node(bb, "else"))
                    ok = bool(convs) and bool(flag_edges_t) and all(b.set_dominated(x.bb, flag_edges_t) for x in convs)
                    # on the true edge the copy cannot be reached without the conversion
                    p = b.path_avoiding(list(flag_edges_t), [c.bb], {x.bb for x in convs}) if flag_edges_t else [0]
                    ctx.ob("C29.c/file-write-converted-on-flag", root, ok and p is None and conv,
                           "convert_eol_for_update on the apply_eol_conversion==true edge, raw stream otherwise"
                           if ok and p is None and conv else
                           "write_file can copy unconverted contents although conversion was requested", where=c.where())
    # flag values at the call sites in TreeState::update
    bs = bodies_with(F, LW + "TreeState::update", LW + "TreeState::write_file")
    ctx.anchor("C29.c", "write_file call sites in update", bs, 1)
    for b in bs:
        sl = F.slicer(b.id)
        vals = []
        for c in b.calls_to(LW + "TreeState::write_file"):
            if c.decl == "futures::Future::poll":
                continue
            flag = strip(sl.call_arg(c, 4))
            content = sl.call_arg(c, 2)
            is_symlink_text = any(name_matches(x[1], "re:String::as_bytes$|str::as_bytes$") for x in term_calls(content))
            vals.append((flag, is_symlink_text))
            want = ("const", False) if is_symlink_text else ("const", True)
            ctx.ob("C29.c/conversion-flag", f"update|{'symlink-as-file' if is_symlink_text else 'file'}", flag == want,
                   f"apply_eol_conversion = {show(flag)}" if flag == want else
                   f"{'symlink target text' if is_symlink_text else 'file contents'} written with apply_eol_conversion="
                   f"{show(flag)}", where=c.where())
        ctx.anchor("C29.c", "write_file call sites", vals, 2)


def rule_d(ctx):
    F = ctx.F
    EOL = "jj_lib::eol::"
    MODE = EOL + "EolConversionMode"
    TE = EOL + "TargetEol"
    table = {
        SNAPCONV: ({"None": "pass", "Input": "Lf", "InputOutput": "Lf"}, "Lf"),
        UPDCONV: ({"None": "pass", "Input": "pass", "InputOutput": "Crlf"}, "Crlf"),
    }
    for root, (expect, target) in table.items():
        bs = [b for b in F.family_bodies(root) if b.calls_to(EOL + "convert_eol")]
        if not ctx.anchor("C29.d", f"{root} body", bs, 1):
            continue
        b = bs[0]
        ctx.fn_seen(b.id)
        sl = F.slicer(b.id)
        sw = [(bb, b.discr_source(bb)) for bb, _ in b.switches()]
        sw = [(bb, ds) for bb, ds in sw if ds and ds[1] == MODE]
        if not ctx.anchor("C29.d", f"{root}: switch on EolConversionMode", sw, 1):
            continue
        bb, ds = sw[0]
        conv = b.calls_to(EOL + "convert_eol")
        probe = b.calls_to(EOL + "TargetEolStrategy::probe_for_binary")
        aggs = {}
        for i, blk in enumerate(b.blocks):
            if blk.get("c"):
                continue
            for st in blk["s"]:
                if st["r"]["k"] == "agg" and st["r"].get("adt") == TE:
                    aggs.setdefault(st["r"]["v"], set()).add(i)
        variants = set(ds[2].values())
        ctx.ob("C29.d/mode-table-complete", root, variants == set(expect), f"variants {sorted(variants)}" if variants == set(expect)
               else f"EolConversionMode has variants {sorted(variants)} but the rule table knows {sorted(expect)}")
        for v, want in expect.items():
            e = b.variant_edge(bb, v)
            others = {b.variant_edge(bb, o) for o in expect if b.variant_edge(bb, o) != e}
            reach = b.reachable_from([e], avoid=others) if e is not None else set()
            converts = any(c.bb in reach for c in conv)
            tgt = {n for n, blks in aggs.items() if blks & reach and n != "PassThrough"}
            got = "pass" if not converts else "/".join(sorted(tgt)) or "?"
            ctx.ob("C29.d/mode-table", f"{root.split('::')[-1]}|{v}", got == want,
                   f"{v}: {'stored bytes pass through unchanged' if want == 'pass' else 'text converted to ' + want}" if got == want
                   else f"for mode {v} {root.split('::')[-1]} does '{got}' but the setting means '{want}'")
        # binary probe polarity: PassThrough only on the probe's true edge, the conversion target only on its false edge
        okp = False
        if probe:
            pc = [c for c in probe if c.decl != "futures::Future::poll"]
            for bb2, t in b.switches():
                p = op_place(t["o"])
                if p is None:
                    continue
                term = strip(sl.place(p, at=bb2))
                if any(x[1] == EOL + "TargetEolStrategy::probe_for_binary" for x in term_calls(term)) and b.locals[p[0]] == "bool":
                    e_true, e_false = b.edge_node(bb2, "else"), b.edge_node(bb2, 0)
                    rt, rf = b.reachable_from([e_true], avoid=[e_false]), b.reachable_from([e_false], avoid=[e_true])
                    pt, tg = aggs.get("PassThrough", set()), aggs.get(target, set())
                    okp = bool(pt) and bool(tg) and pt <= rt and not (pt & rf - rt) and tg <= rf and not (tg & rt - rf)
        ctx.ob("C29.d/binary-passes-through", root, okp, f"probe_for_binary()==true selects PassThrough, false selects {target}"
               if okp else "the binary probe's polarity is wrong or its result does not select PassThrough")
        # the probed prefix is put back
        t = sl.call_arg(conv[0], 0)
        names = {x[1] for x in term_calls(t)}
        okc = any(n.endswith("::chain") for n in names) and any(n.endswith("Cursor::<T>::new") or n.endswith("Cursor::new") for n in names)
        ctx.ob("C29.d/probed-prefix-chained-back", root, okc, "convert_eol(Cursor::new(peek).chain(contents), ..)" if okc else
               f"the bytes consumed by the binary probe are not put back in front of the stream: {show(t)[:120]}")
    cb = [b for b in F.family_bodies(EOL + "convert_eol")]
    okpt = False
    for b in cb:
        for bb, _ in b.switches():
            ds = b.discr_source(bb)
            if ds and ds[1] == TE:
                e = b.variant_edge(bb, "PassThrough")
                others = {b.variant_edge(bb, o) for o in ("Lf", "Crlf")}
                reach = b.reachable_from([e], avoid=others) if e is not None else set()
                reads = [c for c in b.calls if not c.cleanup and name_matches(c.res or c.decl or "", "re:read_to_end$|extend_from_slice$")]
                okpt = e is not None and not any(c.bb in reach for c in reads)
                ctx.fn_seen(b.id)
    ctx.ob("C29.d/passthrough-is-identity", EOL + "convert_eol", okpt, "PassThrough returns the input stream without reading it"
           if okpt else "convert_eol no longer returns the input untouched for PassThrough (binary files are rewritten)")
