"""C21  Stacked tables keep every saved entry under concurrent writers (head discipline).

a. TableStore::save_table: save_in (?-checked) < add_head (?-checked) < remove_head(parent),
   removal only on the parent.name != table.name edge
b. TableStore::get_head_locked: save_table(merged) (?-checked) < every remove_head(other);
   merged table = incremental(tables[0]) with merge_in of exactly the tables whose heads are removed
c. who may call remove_head
"""
from jjv.lib import (bodies_with, bool_edges, check_order, find_ok_nodes, name_matches, norm, show, strip, term_calls)

TS = "jj_lib::stacked_table::TableStore::"
MT = "jj_lib::stacked_table::MutableTable::"


def run(ctx):
    F = ctx.F
    ctx.explanation = (
        "Static ordering rules on TableStore: the new segment is persisted (through the atomic-replace helper, C15.a) "
        "and its head marker created, both ?-checked, before the parent head is removed, and only when the name "
        "differs; when reconciling divergent heads, the merged table is saved (?-checked) before any other head is "
        "removed, it is built by MutableTable::incremental(first head) plus merge_in of each other head, and the heads "
        "removed are exactly the tables merged in; remove_head has no other caller.  Holds for every interleaving of "
        "writers because each writer's own step order never leaves an entry reachable from no head.")
    ctx.clauses = ["save<add_head<remove_head on all paths", "merge saved before divergent heads are dropped",
                   "heads dropped are the heads merged in", "who may remove a head",
                   "segment walk visits every ancestor of a queued segment; segments applied oldest first"]
    ctx.not_decided = ["squash thresholds", "that num_entries-guided descent finds the common ancestor",
                       "lookup semantics beyond application order"]
    ctx.assumptions = ["fs::write(\"\")/remove_file atomic per file"]

    check_order(ctx, "C21.a/segment-saved-before-head-added", TS + "save_table", MT + "save_in", TS + "add_head")
    check_order(ctx, "C21.a/head-added-before-parent-removed", TS + "save_table", TS + "add_head", TS + "remove_head")
    # removal only when the parent differs from the new table
    for b in bodies_with(F, TS + "save_table", TS + "remove_head"):
        for r in b.calls_to(TS + "remove_head"):
            ok = False
            for c in b.calls:
                if c.cleanup or c.decl not in ("std::cmp::PartialEq::ne", "std::cmp::PartialEq::eq"):
                    continue
                if "String" not in (c.self_ty or "") + c.generics and "str" not in (c.self_ty or ""):
                    continue
                trues, falses = bool_edges(F, b, c)
                want = trues if c.decl.endswith("::ne") else falses
                if want and b.set_dominated(r.bb, set(want)):
                    ok = True
            ctx.ob("C21.a/parent-removed-only-if-different", TS + "save_table", ok,
                   "remove_head(parent) is on the parent.name != table.name edge" if ok else
                   "the parent head can be removed even when it is the table just saved", where=r.where())

    check_order(ctx, "C21.b/merged-saved-before-others-removed", TS + "get_head_locked", TS + "save_table",
                TS + "remove_head", start=MT + "merge_in")
    for b in bodies_with(F, TS + "get_head_locked", TS + "remove_head"):
        ctx.fn_seen(b.id)
        sl = F.slicer(b.id, with_mutators=True)
        merges = b.calls_to(MT + "merge_in")
        ctx.anchor("C21.b", "merge_in calls in get_head_locked", merges, 1)
        removed = {repr(norm(sl.call_arg(r, 1))): r for r in b.calls_to(TS + "remove_head")}
        merged = {repr(norm(sl.call_arg(m, 1))) for m in merges}
        for k, r in removed.items():
            ctx.ob("C21.b/removed-heads-were-merged", TS + "get_head_locked", k in merged,
                   f"remove_head argument {show(sl.call_arg(r, 1))[:160]} is also merged in" if k in merged else
                   f"a head is removed that was not merged into the saved table: {show(sl.call_arg(r, 1))[:200]}",
                   where=r.where())
        # what is saved is incremental(first head) + merge_in(...)
        saves = [s for s in b.calls_to(TS + "save_table") if any(b.path_avoiding([m.bb], [s.bb]) for m in merges)]
        ctx.anchor("C21.b", "save_table after merge_in", saves, 1)
        for s in saves:
            t = sl.call_arg(s, 1)
            names = [c[1] for c in term_calls(t)]
            ok = (MT + "incremental") in names and (MT + "merge_in") in names
            ctx.ob("C21.b/saved-table-is-the-merge", TS + "get_head_locked", ok,
                   f"saved table = {show(t)[:220]}" if ok else
                   f"the table saved before dropping heads is not incremental(head)+merge_in: {show(t)[:220]}",
                   where=s.where())

    rule_d(ctx)
    sites = F.all_calls_to(TS + "remove_head")
    ctx.anchor("C21.c", "remove_head call sites", sites, 2)
    for c in sites:
        ok = c.body.root in (TS + "save_table", TS + "get_head_locked")
        ctx.ob("C21.c/who-may-remove-head", c.body.root, ok, "tabled caller" if ok else
               "remove_head called from a function outside {save_table, get_head_locked}", where=c.where())
    # heads are only deleted through remove_head (and reinit's remove_dir_all of the whole store)
    rm = F.all_calls_to(("std::fs::remove_file", "std::fs::remove_dir_all"), crates=("jj_lib",))
    rm = [c for c in rm if c.body.root.startswith("jj_lib::stacked_table::")]
    allowed = {TS + "remove_head": "head marker", TS + "gc": "unreachable segments older than keep_newer",
               TS + "reinit": "explicit re-initialisation of the whole store"}
    for c in rm:
        ctx.ob("C21.c/file-deletions-in-stacked-table", f"{c.body.root}->{c.res}", c.body.root in allowed,
               allowed.get(c.body.root, "unexpected file deletion in the table store"), where=c.where())


# ---------------------------------------------------------------------------
# d. structural clauses of the segment walk (added after two agent-seeded changes were missed)

def rule_d(ctx):
    """merge_in / maybe_squash_with_ancestors walk parent links newest -> oldest:
    d1. whenever a segment of the other chain is queued, the cursor is advanced to its parent before the walk can end
        (otherwise deeper ancestors of the other head are silently dropped)
    d2. queued segments are applied oldest first (reverse of the walk) and the table's own entries last, so a later save
        of a key wins"""
    from jjv.lib import alts, op_place, walk, term_leaves
    F = ctx.F
    # d1
    fid = MT + "merge_in"
    b = F.body(fid)
    if ctx.anchor("C21.d", fid, 1 if b else 0, 1):
        ctx.fn_seen(fid)
        sl = F.slicer(fid)
        defs, _ = b.defs
        cursor = None
        for l, ds in defs.items():
            if len(ds) < 2:
                continue
            kinds = set()
            for (bb, si, kind, payload) in ds:
                t = sl._rvalue(payload, bb) if kind == "assign" else sl._call(payload, bb)
                if any(lf[0] == "param" and lf[2] == "other" for lf in term_leaves(t)) and \
                        not any(w[0] == "field" and w[3] == "parent_file" for w in walk(t)):
                    kinds.add("init")
                if any(w[0] == "field" and w[3] == "parent_file" for w in walk(t)):
                    kinds.add("advance")
            if kinds == {"init", "advance"}:
                cursor = l
        if ctx.anchor("C21.d", "cursor over the other head's ancestors", 1 if cursor is not None else 0, 1):
            adv = set()
            for (bb, si, kind, payload) in defs[cursor]:
                t = sl._rvalue(payload, bb) if kind == "assign" else sl._call(payload, bb)
                if any(w[0] == "field" and w[3] == "parent_file" for w in walk(t)):
                    adv.add(bb)
            pushes = [c for c in b.calls if not c.cleanup and name_matches(c.res or c.decl or "", "re:Vec.*::push$")]
            ctx.anchor("C21.d", "segments queued in merge_in", pushes, 1)
            for i, p in enumerate(pushes):
                path = b.path_avoiding([p.target] if p.target is not None else [], b.return_blocks(), adv)
                ctx.ob("C21.d/queued-segment-advances-cursor", f"{fid}#{i}", path is None,
                       "after queuing a segment the cursor moves to its parent on every path" if path is None else
                       "a segment of the other head is queued and the walk can end without visiting its ancestors: their "
                       "entries are dropped from the merged table", where=p.where())
    # d2
    for fid in (MT + "merge_in", MT + "maybe_squash_with_ancestors"):
        b = F.body(fid)
        if not ctx.anchor("C21.d", fid, 1 if b else 0, 1):
            continue
        ctx.fn_seen(fid)
        sl = F.slicer(fid, with_mutators=True)
        adds = [c for c in b.calls if not c.cleanup and (c.res or "") == MT + "add_entries_from"]
        ctx.anchor("C21.d", f"{fid}: add_entries_from calls", adds, 1)
        loop_adds, self_adds = [], []
        for c in adds:
            t = sl.call_arg(c, 1)
            names = [x[1] for x in term_calls(t)]
            if any(name_matches(n, "re:Iterator::next$|::next$") for n in names):
                loop_adds.append((c, names))
            else:
                self_adds.append(c)
        for c, names in loop_adds:
            has_rev = any(name_matches(n, "re:Iterator::rev$|::rev$") for n in names)
            appended = any(name_matches(n, "re:Vec.*::push$|VecDeque.*::push_back$") for n in names)
            prepended = any(name_matches(n, "re:Vec.*::insert$|VecDeque.*::push_front$") for n in names)
            # the walk goes newest -> oldest: appended queues must be reversed, prepended ones must not
            ok = (appended and has_rev and not prepended) or (prepended and not has_rev and not appended)
            ctx.ob("C21.d/ancestors-applied-oldest-first", fid, ok,
                   "segments collected newest->oldest are applied in reverse (oldest first)" if ok else
                   "queued segments are applied newest first: an older value of a key overwrites a newer one", where=c.where())
        for c in self_adds:
            late = [x for x, _ in loop_adds if x.bb in b.after(c.bb)]
            ctx.ob("C21.d/own-entries-applied-last", fid, not late, "the table's own entries are applied after all ancestors" if not late
                   else "ancestor segments are applied after the table's own entries", where=c.where())
