"""C09  Moving changes down a stack never alters the snapshots above it (tree-reuse clauses).

a. absorb: the source commit is rewritten with reparent() (its tree is kept), never rebased/merged
b. split: the second commit of a sequential split gets the original commit's tree unchanged; only --parallel
   recomputes it
c. squash: what is removed from the source is the inverse of exactly what is added to the destination; when moving
   changes into a descendant the descendants are rebased first, on the is_ancestor edge
"""
from jjv.lib import (alts, bodies_with, bool_edges, find_ok_nodes, name_matches, norm, op_place, show, strip, term_calls,
                     term_fields, term_leaves, walk)

CR = "jj_lib::rewrite::CommitRewriter::<'repo>::"


def run(ctx):
    ctx.explanation = (
        "Provenance / control-dependence rules at the three places the guarantee rests on reuse of a tree: in the "
        "absorb_hunks rewrite closure the builder written for the source commit comes from CommitRewriter::reparent and "
        "the `old_commit == source` edge reaches no rebase/set_tree/merge; in cmd_split the tree of the second commit is "
        "the target commit's tree on the non-parallel edge and a MergedTree::merge result only on the parallel edge, "
        "and its parent is the first commit; in squash_commits the source loses invert(source.diff) and the "
        "destination gains the same source.diff on top of the (possibly rebased) destination's tree, with "
        "rebase_descendants_with_options control-dependent on the is_ancestor test and before the destination merge.")
    ctx.clauses = ["absorb keeps the source's tree", "sequential split reuses the original tree",
                   "squash adds exactly what it removes; rebase-first when squashing into a descendant"]
    ctx.not_decided = ["that the merges involved actually cancel (C04/C07)", "descendants' trees after rebase (C08)"]
    rule_a(ctx)
    rule_b(ctx)
    rule_c(ctx)


def rule_a(ctx):
    F = ctx.F
    root = "jj_lib::absorb::absorb_hunks"
    bs = bodies_with(F, root, CR + "old_commit")
    if not ctx.anchor("C09.a", "absorb_hunks rewrite closure", bs, 1):
        return
    for b in bs:
        ctx.fn_seen(b.id)
        sl = F.slicer(b.id)
        eqs = []
        for c in b.calls:
            if c.cleanup or c.decl != "std::cmp::PartialEq::eq":
                continue
            ts = [sl.call_arg(c, k) for k in range(len(c.args))]
            n = {x[1] for t in ts for x in term_calls(t)}
            if any(x.endswith("CommitRewriter::<'repo>::old_commit") for x in n) and \
                    any(w[0] == "field" and w[3] == "commit" for t in ts for w in walk(t)):
                eqs.append(c)
        if not ctx.anchor("C09.a", "old_commit == source test", eqs, 1):
            continue
        trues, falses = bool_edges(F, b, eqs[0])
        region = b.reachable_from(list(trues), avoid=set(falses))
        # calls in the region reachable only through the true edge (dominated by it)
        dom = [c for c in b.calls if not c.cleanup and trues and b.set_dominated(c.bb, set(trues))]
        names = [c.res or c.decl or "" for c in dom]
        has_reparent = any(n == CR + "reparent" for n in names)
        bad = [n for n in names if n in (CR + "rebase", CR + "rebase_with_empty_behavior") or
               name_matches(n, ("re:CommitBuilder.*::set_tree$", "re:MergedTree::merge$"))]
        ctx.ob("C09.a/source-reparented-not-rebased", root, has_reparent and not bad,
               "on the source edge: reparent() then write()/abandon(); no rebase, set_tree or merge" if has_reparent and not bad
               else f"the absorb source is rewritten with {bad or 'something other than reparent()'}: its tree (and its "
                    f"descendants') changes")
        # what is written as rewritten_source comes from reparent
        for c in dom:
            if name_matches(c.res or c.decl or "", "re:CommitBuilder.*::write$"):
                t = sl.call_arg(c, 0)
                ok = any(x[1] == CR + "reparent" for x in term_calls(t))
                ctx.ob("C09.a/written-builder-is-reparent", root, ok, f"write({show(t)[:80]})" if ok else
                       f"the builder written for the source does not come from reparent(): {show(t)[:100]}", where=c.where())


def rule_b(ctx):
    F = ctx.F
    root = "jj_cli::commands::split::cmd_split"
    bs = bodies_with(F, root, "re:CommitBuilder.*::set_tree$|DetachedCommitBuilder::set_tree$")
    if not ctx.anchor("C09.b", "cmd_split body with set_tree", bs, 1):
        return
    b = bs[0]
    ctx.fn_seen(b.id)
    sl = F.slicer(b.id)
    sets = [c for c in b.calls if not c.cleanup and name_matches(c.res or c.decl or "", "re:set_tree$")]
    # the second commit's set_tree: its builder derives from rewrite_commit(&target.commit)
    # (the first commit's tree is the user's selection; the second commit's tree term mentions the target's tree or a
    # merge of it)
    def is_selection(t):
        n = strip(t)
        return isinstance(n, tuple) and n[0] == "field" and n[3] == "selected_tree"
    second = [c for c in sets if not is_selection(sl.call_arg(c, 1))]
    ctx.anchor("C09.b", "set_tree of the second commit", second, 1)
    # the `parallel` switch
    par_true, par_false = set(), set()
    for bb, t in b.switches():
        p = op_place(t["o"])
        if p is None:
            continue
        tt = strip(sl.place(p, at=bb))
        name = None
        if isinstance(tt, tuple) and tt[0] == "param":
            name = tt[2]
        if isinstance(tt, tuple) and tt[0] == "field":
            name = tt[3]
        if name == "parallel":
            par_true.add(b.edge_node(bb, "else"))
            par_false.add(b.edge_node(bb, 0))
    ctx.anchor("C09.b", "tests of `parallel`", par_true, 1)
    for c in second:
        t = sl.call_arg(c, 1)
        al = alts(t)
        kinds = []
        for a in al:
            n = strip(a)
            calls = {x[1] for x in term_calls(a)}
            if any(name_matches(x, "re:MergedTree::merge$") for x in calls):
                # defined on the parallel edge only
                site = [x for x in term_calls(a) if name_matches(x[1], "re:MergedTree::merge$") and x[3]]
                on_par = bool(site) and all(b.set_dominated(x[3][1], par_true) for x in site if x[3][0] == b.id)
                kinds.append("merge@parallel" if on_par else "merge@any")
            elif isinstance(n, tuple) and n[0] == "call" and n[1] == "jj_lib::commit::Commit::tree" and \
                    any(w[0] == "field" and w[3] == "commit" for w in walk(n)):
                kinds.append("target-tree")
            else:
                kinds.append("other:" + show(a)[:60])
        ok = sorted(kinds) == ["merge@parallel", "target-tree"]
        ctx.ob("C09.b/sequential-split-reuses-tree", root, ok,
               "second commit tree = target.commit.tree() (sequential) | MergedTree::merge(..) only under --parallel" if ok
               else f"the remaining-changes commit does not reuse the original tree in a sequential split: {kinds}", where=c.where())
    # parent of the second commit in the sequential case is the first commit
    sp = [c for c in b.calls if not c.cleanup and name_matches(c.res or c.decl or "", "re:set_parents$")]
    okp = False
    for c in sp:
        t = sl.call_arg(c, 1)
        ks = set()
        for a in alts(t):
            s_ = show(a)
            if any(x[1].endswith("Commit::parent_ids") for x in term_calls(a)):
                ks.add("target-parents")
            elif any(x[1].endswith("CommitBuilder::write") or x[1].endswith("DetachedCommitBuilder::write") for x in term_calls(a)):
                ks.add("first-commit")
        if ks == {"target-parents", "first-commit"}:
            okp = True
    ctx.ob("C09.b/second-on-top-of-first", root, okp, "parents = [first_commit.id()] (sequential) | target's parents (parallel)" if okp
           else "the second commit's parents are not {first commit | original parents}")


def rule_c(ctx):
    F = ctx.F
    root = "jj_lib::rewrite::squash_commits"
    bs = bodies_with(F, root, "jj_lib::repo::MutableRepo::rebase_descendants_with_options")
    if not ctx.anchor("C09.c", "squash_commits body", bs, 1):
        return
    b = bs[0]
    ctx.fn_seen(b.id)
    sl = F.slicer(b.id)
    rb = [c for c in b.calls_to("jj_lib::repo::MutableRepo::rebase_descendants_with_options") if c.decl != "futures::Future::poll"]
    merges = [c for c in b.calls if not c.cleanup and name_matches(c.res or c.decl or "", "re:MergedTree::merge$")]
    # the destination merge: its argument reads rewritten_destination.tree() and the sources' `diff` un-inverted
    dest = None
    srcm = None
    for m in merges:
        t = sl.call_arg(m, 0)
        inv = any(name_matches(x[1], "re:::invert$") for x in term_calls(t))
        reads_diff = any(w[0] == "field" and w[3] == "diff" for w in walk(t)) or \
            any(x[1].startswith("closure:") for x in term_calls(t))
        if inv:
            srcm = (m, t)
        else:
            dest = (m, t)
    ok_pair = srcm is not None and dest is not None
    ctx.ob("C09.c/remove-and-add-same-diff", root, ok_pair,
           "source tree := merge(source, invert(source.diff)); destination tree := merge(destination, source.diff)" if ok_pair
           else "squash does not pair an inverted diff on the source with the same diff on the destination")
    if dest is not None:
        m, t = dest
        # rebase happens before, and only on the is_ancestor edge
        anc = [c for c in b.calls if not c.cleanup and name_matches(c.res or c.decl or "", "re:fallible_any$")]
        guard = False
        for a in anc:
            # fallible_any(sources, |s| index.is_ancestor(..)).await?  -> bool
            pred = [x for k in range(len(a.args)) for x in term_calls(sl.call_arg(a, k)) if x[1].startswith("closure:")]
            uses_anc = False
            for x in pred:
                for fid in F.family(b.root):
                    if fid.startswith(x[1][8:]):
                        cb = F.body(fid)
                        if any(name_matches(y.res or y.decl or "", "re:Index::is_ancestor$") for y in cb.calls if not y.cleanup):
                            uses_anc = True
            if not uses_anc:
                continue
            # find switch whose operand derives from this call
            for bb, tsw in b.switches():
                p = op_place(tsw["o"])
                if p is None or b.locals[p[0]] != "bool":
                    continue
                tt = sl.place(p, at=bb)
                if any(x[3] and x[3][0] == b.id and x[3][1] == a.bb for x in term_calls(tt)):
                    e_true = b.edge_node(bb, "else")
                    if all(b.set_dominated(r.bb, {e_true}) for r in rb):
                        guard = True
        ctx.ob("C09.c/rebase-first-when-into-descendant", root, guard and bool(rb),
               "rebase_descendants_with_options only on the `a source is an ancestor of the destination` edge" if guard else
               "descendants are not rebased (or unconditionally rebased) before squashing into a descendant")
        # the destination's new tree is that merge on every path (no shortcut that takes some other tree)
        sts = [c for c in b.calls if not c.cleanup and name_matches(c.res or c.decl or "", "re:CommitBuilder.*::set_tree$")]
        n_dest = 0
        for st in sts:
            recv = sl.call_arg(st, 0)
            if not any(name_matches(x[1], "re:MutableRepo::rewrite_commit$") for x in term_calls(recv)):
                continue
            if not any(w[0] == "field" and w[3] in ("destination",) for w in walk(recv)) and "destination" not in show(recv):
                continue
            n_dest += 1
            targ = sl.call_arg(st, 1)
            bad_alts = []
            for a in alts(targ):
                names_ = {x[1] for x in term_calls(a)}
                if not any(name_matches(n_, "re:MergedTree::merge$") for n_ in names_) or \
                        not any(name_matches(n_, "re:Merge::<T>::from_diffs$|::from_diffs$") for n_ in names_):
                    bad_alts.append(show(a)[:90])
            ctx.ob("C09.c/destination-tree-is-always-the-merge", root, not bad_alts,
                   "destination.set_tree(merge(from_diffs(destination tree, source diffs))) on every path" if not bad_alts else
                   f"on some path the destination takes a tree that is not merge(destination, source diffs): {bad_alts[0]} - for a "
                   f"source with other parents (a merge commit) their changes are applied twice and every descendant changes",
                   where=st.where())
        ctx.anchor("C09.c", "set_tree on the rewritten destination", n_dest, 1)
        before = all(m.bb in b.after(r.bb) and r.bb not in b.after(m.bb) for r in rb)
        ctx.ob("C09.c/rebase-precedes-destination-merge", root, before and bool(rb),
               "the descendant rebase precedes the destination merge" if before else
               "the destination tree is computed before descendants were rebased onto the rewritten sources")
        uses_rw = any(name_matches(x[1], "re:Commit::tree$") for x in term_calls(t))
        ctx.ob("C09.c/destination-merge-on-rewritten-destination", root, uses_rw,
               "destination merge starts from rewritten_destination.tree()" if uses_rw else "destination merge base is not the destination's tree")
