"""C25  Checkout never destroys files it does not own.

U = call-graph cone of TreeState::update (reached from check_out / set_sparse_patterns).
a. the file-system *mutating* calls inside U are a frozen inventory (family, callee, multiplicity)
b. every OpenOptions::open in U carries create_new(true) on the same builder and nothing that truncates
c. in the per-entry closure, every content write is preceded, on every *feasible* path (bool/discriminant
   constant propagation), by a successful removal of the tracked old file or a successful can_create_new_file
   probe; paths are built from validated components (to_fs_path / create_parent_dirs)
d. stat calls in the working-copy module never follow symlinks
e. to_fs_path_unchecked is used for display only
f. deletions are non-recursive and confined
"""
from jjv.lib import (PathExplorer, place_key, referent_place, bodies_with, bool_edges, check_order, cone_calls, find_ok_nodes, name_matches,
                     predicate_summary, show, strip, term_calls)

LW = "jj_lib::local_working_copy::"
UPDATE = LW + "TreeState::update"

MUTATORS = ("std::fs::write", "re:^std::fs::File::(create|create_new|set_len|set_permissions)$",
            "std::fs::OpenOptions::open", "std::fs::copy", "std::fs::rename", "std::fs::hard_link",
            "std::fs::remove_file", "std::fs::remove_dir", "std::fs::remove_dir_all", "std::fs::create_dir",
            "std::fs::create_dir_all", "std::fs::set_permissions", "re:^std::os::unix::fs::symlink$",
            "re:NamedTempFile.*::persist", "re:^std::fs::OpenOptions::(create|truncate|append)$")

# (family, callee) -> (max multiplicity, reason)
INVENTORY = {
    (LW + "TreeState::write_file", "std::fs::OpenOptions::open"): (1, "create_new(true): fails on an existing path"),
    (LW + "TreeState::write_conflict", "std::fs::OpenOptions::open"): (1, "create_new(true)"),
    (LW + "can_create_new_file", "std::fs::OpenOptions::open"): (1, "create_new(true) probe file"),
    (LW + "can_create_new_file", "std::fs::remove_file"): (2, "removes only the probe file it just created"),
    (LW + "TreeState::update", "std::fs::create_dir"): (1, "submodule directory; fails on an existing entry"),
    (LW + "TreeState::update", "std::fs::remove_dir"): (1, "empty parent directories after a removal; non-recursive"),
    (LW + "create_parent_dirs", "std::fs::create_dir"): (1, "fails on an existing entry"),
    (LW + "create_parent_dirs", "std::fs::remove_dir"): (1, "removes only the directory it just created"),
    (LW + "remove_old_file", "std::fs::remove_file"): (1, "the tracked file being replaced"),
    (LW + "remove_old_submodule_dir", "std::fs::remove_dir"): (1, "non-recursive: untracked contents survive"),
    (LW + "set_executable", "std::fs::set_permissions"): (1, "mode of a file checkout just created"),
    ("jj_lib::file_util::platform::symlink_file", "std::os::unix::fs::symlink"): (1, "fails with EEXIST"),
}

FOLLOWING_STATS = ("re:^std::path::Path::(metadata|exists|is_file|is_dir|try_exists|canonicalize|read_dir)$",
                   "std::fs::metadata", "std::fs::canonicalize", "std::fs::read_dir")
WRITES = (LW + "TreeState::write_file", LW + "TreeState::write_symlink", LW + "TreeState::write_conflict")
GUARDS = (LW + "remove_old_file", LW + "remove_old_submodule_dir", LW + "can_create_new_file")


def run(ctx):
    F = ctx.F
    ctx.explanation = (
        "Static rules over the cone of TreeState::update: the inventory of file-system mutating calls is frozen "
        "(any new write/create/copy/rename/remove in the cone fails); every OpenOptions::open has create_new(true) on "
        "the same builder (so an existing path, including a symlink, is never opened for writing); in the per-entry "
        "closure every content write is reachable only on paths where removing the tracked old file succeeded or the "
        "can_create_new_file probe returned true (path-sensitive: bool/discriminant constants propagated along "
        "paths), and the disk path comes from to_fs_path/create_parent_dirs; stats in the module are "
        "symlink_metadata; deletions are non-recursive.")
    ctx.clauses = ["frozen inventory of fs mutations in the checkout cone", "create_new(true) on every open",
                   "write only after successful removal or successful create-probe (all feasible paths)",
                   "no symlink-following stat", "to_fs_path_unchecked display-only", "non-recursive deletions"]
    ctx.not_decided = ["cfg(windows) branches", "that a tracked file modified since the last snapshot is not replaced "
                       "(the code has a TODO for it; the property scopes it to untouched paths)"]
    ctx.assumptions = ["O_EXCL|O_CREAT semantics of create_new", "fs::create_dir / symlink fail on an existing entry"]
    rule_a(ctx)
    rule_b(ctx)
    rule_c(ctx)
    rule_d(ctx)
    rule_e(ctx)
    rule_g(ctx)


def rule_g(ctx):
    """every entry handed to the per-entry closure comes from a producer restricted by the `matcher` parameter
    (the sparse patterns / the requested subset): the update never touches a path outside it"""
    F = ctx.F
    PROD = "re:^jj_lib::merged_tree::MergedTree::(diff_stream|conflicts|entries)"
    found = 0
    for b in F.family_bodies(UPDATE):
        inv = [c for c in b.calls if not c.cleanup and c.decl in ("std::ops::AsyncFnMut::async_call_mut",
               "std::ops::FnMut::call_mut", "std::ops::AsyncFn::async_call", "std::ops::Fn::call")
               and (c.res or "").startswith(UPDATE + "::")]
        if not inv:
            continue
        ctx.fn_seen(b.id)
        sl = F.slicer(b.id, with_mutators=True)
        for i, c in enumerate(inv):
            found += 1
            t = sl.call_arg(c, 1)
            prods = [x for x in term_calls(t) if name_matches(x[1], PROD)]
            bad = [x for x in prods if not any(l[0] == "param" and l[2] == "matcher" for a in x[2][1:] for l in
                                               __import__("jjv.lib", fromlist=["term_leaves"]).term_leaves(a))]
            ok = bool(prods) and not bad
            ctx.ob("C25.g/entries-restricted-by-matcher", f"{UPDATE}|entry-source#{i}", ok,
                   f"entries come from {sorted({x[1].split('::')[-1] for x in prods})}(.., matcher)" if ok else
                   f"paths processed by the update come from {[x[1].split('::')[-1] for x in (bad or prods)]} which is not "
                   f"restricted by the matcher: files outside the sparse patterns can be removed/overwritten",
                   where=c.where())
    ctx.anchor("C25.g", "invocations of the per-entry closure", found, 2)


def cone(ctx):
    F = ctx.F
    if not ctx.anchor("C25", UPDATE, 1 if F.fn(UPDATE) else 0, 1):
        return {}
    c = F.cg.cone([UPDATE], crates=("jj_lib", "jj_core"))
    # the stores reached through `dyn Backend` write their own files (C15), not working-copy files
    return {r: d for r, d in c.items() if not is_store(r)}


def is_store(root):
    return root.startswith(("<jj_lib::simple_backend::", "<jj_lib::git_backend::", "jj_lib::simple_backend::",
                            "jj_lib::git_backend::", "jj_lib::stacked_table::", "<jj_lib::secret_backend::",
                            "jj_lib::file_util::persist_"))


def rule_a(ctx):
    F = ctx.F
    c = cone(ctx)
    ctx.info["checkout_cone_families"] = len(c)
    ctx.fn_seen(*c)
    hits = sorted(set(cone_calls(F, c, MUTATORS)))
    found = 0
    for root, callee in hits:
        ent = INVENTORY.get((root, callee))
        n = len(F.family_calls(root, callee))
        ok = ent is not None and n <= ent[0]
        found += ok
        sites = F.family_calls(root, callee)
        ctx.ob("C25.a/fs-mutation-inventory", f"{root}->{callee}", ok,
               f"{n} site(s): {ent[1]}" if ok else
               (f"{n} sites exceed the tabled multiplicity {ent[0]}" if ent else
                "file-system mutation inside the checkout cone that is not in the frozen inventory"),
               where=sites[0].where() if sites else None, sites=max(n, 1))
    ctx.anchor("C25.a", "inventory entries matched", found, 10)
    # positive control: the matcher does see mutating calls elsewhere (e.g. ReadonlyRepo::init uses fs::write)
    ctrl = cone_calls(F, {"jj_lib::repo::ReadonlyRepo::init": 0}, MUTATORS)
    ctx.ob("C25.a/matcher-positive-control", "ReadonlyRepo::init", bool(ctrl), f"matcher finds {len(ctrl)} mutating callees there")


def rule_b(ctx):
    F = ctx.F
    c = cone(ctx)
    opens = [s for s in F.all_calls_to("std::fs::OpenOptions::open", crates=("jj_lib",)) if s.body.root in c]
    ctx.anchor("C25.b", "OpenOptions::open sites in the checkout cone", opens, 3)
    for s in opens:
        sl = F.slicer(s.body.id)
        t = sl.call_arg(s, 0)
        calls = term_calls(t)
        good = any(x[1] == "std::fs::OpenOptions::create_new" and len(x[2]) > 1 and strip(x[2][1]) == ("const", True)
                   for x in calls)
        bad = [x[1] for x in calls if name_matches(x[1], "re:^std::fs::OpenOptions::(create|truncate|append)$")
               and not (len(x[2]) > 1 and strip(x[2][1]) == ("const", False))]
        neg = any(x[1] == "std::fs::OpenOptions::create_new" and len(x[2]) > 1 and strip(x[2][1]) != ("const", True)
                  for x in calls)
        ok = good and not bad and not neg
        ctx.ob("C25.b/create-new-on-every-open", f"{s.body.root}", ok,
               f"builder = {show(t)[:200]}" if ok else
               f"file opened for writing without create_new(true) (or with create/truncate/append): {show(t)[:240]}",
               where=s.where())
    # File::create / fs::write etc. are covered by the inventory (none allowed)


def rule_c(ctx):
    F = ctx.F
    bs = bodies_with(F, UPDATE, WRITES)
    ctx.anchor("C25.c", "per-entry closure of TreeState::update with content writes", bs, 1)
    # is_absent() summary used to discard infeasible paths
    ISABS = "jj_lib::conflicts::MaterializedTreeValue::is_absent"
    summ = predicate_summary(F, ISABS) if F.fn(ISABS) else None
    ctx.ob("C25.c/is_absent-is-matches-Absent", ISABS, bool(summ) and summ[1] == "Absent",
           f"returns true exactly on variant {summ[1]} of {summ[0]}" if summ else
           "MaterializedTreeValue::is_absent is not a single-variant test any more (summary used to prune paths)")
    for b in bs:
        ctx.fn_seen(b.id)
        W = b.calls_to(WRITES)
        W = [w for w in W if w.decl != "futures::Future::poll"]
        G = b.calls_to(GUARDS)
        ctx.anchor("C25.c", "removal/probe calls next to the writes", G, 3)
        interest = {("call", g.bb) for g in G}
        # the materialized value being written: the closure parameter matched by the final `match after`
        absent_calls = [c for c in b.calls if not c.cleanup and (c.res or "") == ISABS]
        after_keys = set()
        sl = F.slicer(b.id, cross_closure=False)
        for c in absent_calls:
            interest.add(("call", c.bb))
            rp = referent_place(b, c.args[0])
            if rp is not None:
                after_keys.add(place_key(rp))
        for k in after_keys:
            interest.add(("discr", k))
        px = PathExplorer(F, b, interest)
        res = px.run([0], [w.bb for w in W])
        ctx.info["C25.c_states"] = len(res)
        by_target = {}
        for node, facts, path in res:
            if facts.get("overflow"):
                ctx.ob("C25.c/explorer", b.id, False, "state budget exceeded")
                continue
            guarded = any(facts.get(("call", g.bb)) == ("eq", 1) for g in G)
            infeasible = False
            if summ:
                for c in absent_calls:
                    if facts.get(("call", c.bb)) == ("eq", 1):
                        for k in after_keys:
                            d = facts.get(("discr", k))
                            if d and ((d[0] == "eq" and d[1] != summ[2]) or (d[0] == "ne" and summ[2] in d[1])):
                                infeasible = True
            if infeasible:
                continue
            by_target.setdefault(node, []).append((guarded, facts, path))
        for w in W:
            states = by_target.get(w.bb, [])
            bad = [s for s in states if not s[0]]
            ok = bool(states) and not bad
            ctx.ob("C25.c/write-only-after-removal-or-probe", f"{UPDATE}|{w.res or w.decl}#{W.index(w)}", ok,
                   f"{len(states)} feasible path classes, all with a successful removal/probe" if ok else
                   f"a content write is reachable although neither the old tracked file was removed nor the "
                   f"create-probe succeeded: facts={bad[0][1] if bad else '(unreachable?)'} path="
                   f"{b.show_path(bad[0][2])[-10:] if bad else ''}", where=w.where(), sites=max(len(states), 1))
        # the probe/removal results are ?-checked (an Err must not fall through to a write)
        for g in G:
            oks = find_ok_nodes(F, b, g)
            ctx.ob("C25.c/probe-result-checked", f"{UPDATE}|{g.res}", bool(oks),
                   "Result is ?-checked" if oks else "the Result of the removal/probe is dropped", where=g.where())
        # disk path provenance: to_fs_path or create_parent_dirs
        for w in W:
            t = sl.call_arg(w, 1)
            names = {x[1] for x in term_calls(t)}
            ok = bool(names & {"jj_lib::repo_path::RepoPath::to_fs_path", LW + "create_parent_dirs"}) and \
                not any("to_fs_path_unchecked" in n for n in names)
            ctx.ob("C25.c/disk-path-validated", f"{UPDATE}|{w.res or w.decl}#{W.index(w)}", ok,
                   "disk path derives from to_fs_path / create_parent_dirs" if ok else
                   f"disk path is not built by the validating converters: {show(t)[:200]}", where=w.where())
    # a disk path taken straight from to_fs_path(full path) is only allowed when all parents were created (and hence
    # checked without following symlinks) earlier in this same update: the is_root() edge of the remainder after
    # split_common_prefix(prev_created_path)
    for b in bs:
        sl2 = F.slicer(b.id, cross_closure=False)
        direct = []
        for c in b.calls_to("jj_lib::repo_path::RepoPath::to_fs_path"):
            # does the result feed create_parent_dirs (fine) or become the disk path itself?
            feeds_cpd = any(any(x[3] and x[3][0] == b.id and x[3][1] == c.bb for x in term_calls(sl2.call_arg(k, 0)))
                            for k in b.calls_to(LW + "create_parent_dirs"))
            if not feeds_cpd:
                direct.append(c)
        for c in direct:
            guards = set()
            for r in b.calls:
                if r.cleanup or (r.res or "") != "jj_lib::repo_path::RepoPath::is_root":
                    continue
                t = sl2.call_arg(r, 0)
                if any(x[1] == "jj_lib::repo_path::RepoPath::split_common_prefix" for x in term_calls(t)):
                    guards |= set(bool_edges(F, b, r)[0])
            ok = bool(guards) and b.set_dominated(c.bb, guards)
            ctx.ob("C25.c/unchecked-parents-only-when-already-created", f"{UPDATE}|to_fs_path", ok,
                   "to_fs_path(full path) is used as the disk path only on the `remainder.is_root()` edge (parents "
                   "created earlier in this update)" if ok else
                   "a disk path is built with to_fs_path without create_parent_dirs: parent components are not "
                   "checked for symlinks", where=c.where())
    # create_parent_dirs: skip (None) when an existing parent is not a directory, decided by symlink_metadata
    cp = LW + "create_parent_dirs"
    for b in F.family_bodies(cp):
        stats = b.calls_to("std::path::Path::symlink_metadata")
        if not stats:
            continue
        ctx.fn_seen(b.id)
        pushes = b.calls_to("re:^std::path::PathBuf::push$")
        names = b.calls_to("jj_lib::repo_path::RepoPathComponent::to_fs_name")
        ctx.ob("C25.c/parent-components-validated", cp, bool(names) and len(names) >= len(pushes) >= 1,
               f"{len(pushes)} PathBuf::push fed by {len(names)} to_fs_name calls")
        sl = F.slicer(b.id)
        okp = True
        for p in pushes:
            t = sl.call_arg(p, 1)
            if not any(x[1] == "jj_lib::repo_path::RepoPathComponent::to_fs_name" for x in term_calls(t)):
                okp = False
        ctx.ob("C25.c/pushed-components-from-to_fs_name", cp, okp,
               "every pushed component is a to_fs_name()? result" if okp else "a raw component is pushed onto the disk path")


def rule_d(ctx):
    F = ctx.F
    c = cone(ctx)
    hits = [s for s in F.all_calls_to(FOLLOWING_STATS, crates=("jj_lib",)) if s.body.root in c
            and s.body.root.startswith(LW)]
    allowed = {(UPDATE, "std::path::Path::is_dir"): "submodule branch: result only permits *not* touching the directory"}
    seen = 0
    for s in hits:
        ent = allowed.get((s.body.root, s.res or s.decl))
        seen += bool(ent)
        ctx.ob("C25.d/no-symlink-following-stat", f"{s.body.root}->{s.res or s.decl}", ent is not None,
               ent or "a stat that follows symlinks is used while updating the working copy", where=s.where())
    sm = [s for s in F.all_calls_to("std::path::Path::symlink_metadata", crates=("jj_lib",)) if s.body.root in c]
    ctx.anchor("C25.d", "symlink_metadata sites in the checkout cone", sm, 4)


def rule_e(ctx):
    F = ctx.F
    c = cone(ctx)
    sites = [s for s in F.all_calls_to("jj_lib::repo_path::RepoPath::to_fs_path_unchecked") if s.body.root in c]
    for s in sites:
        ok = s.body.root == LW + "create_parent_dirs"
        ctx.ob("C25.e/unchecked-path-display-only", s.body.root, ok,
               "error-message site" if ok else "to_fs_path_unchecked used inside the checkout cone", where=s.where())
    ctx.ob("C25.e/unchecked-path-sites", "count", len(sites) <= 1, f"{len(sites)} site(s)")
    rec = [s for s in F.all_calls_to(("std::fs::remove_dir_all",), crates=("jj_lib",)) if s.body.root in c]
    ctx.ob("C25.f/no-recursive-delete", UPDATE, not rec, "no remove_dir_all in the checkout cone" if not rec else
           f"recursive delete at {rec[0].where()}")
