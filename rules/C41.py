"""C41  Undo and restore return the repository to the earlier state (source of each restored portion).

a. view_with_desired_portions_restored: every field of the result is a clone of the SAME-named field; the repo
   portion comes from the restored view exactly when `what` contains Repo, the remote portion when it contains
   RemoteTracking, git_refs/git_heads always from the current view
b. full literal (no ..base, all 7 fields)
c. callers pass (view of the operation restored to, current base view) in that order and install the result with
   MutableRepo::set_view; `op revert` merges (reverted op, its parent) in base/other order first
d. undo/redo stack encoding (the next undo/redo reads it back): the description of the new operation is
   <PREFIX><hex id of the operation whose view was restored>, and the readers strip the same PREFIX constant and load
   the operation with that id
"""
from jjv.lib import (alts, bodies_with, bool_edges, name_matches, norm, show, strip, term_calls, term_leaves, walk)

FN = "jj_cli::commands::operation::view_with_desired_portions_restored"
SV = "jj_lib::op_store::View"
REPO_FIELDS = {"head_ids", "local_bookmarks", "local_tags", "wc_commit_ids"}
REMOTE_FIELDS = {"remote_views"}
GIT_FIELDS = {"git_refs", "git_heads"}
MR = "jj_lib::repo::MutableRepo::"


def run(ctx):
    F = ctx.F
    ctx.explanation = (
        "Provenance rules on MIR: in view_with_desired_portions_restored the op_store::View literal has all fields, "
        "each operand is clone(<source>.<same field>) where <source> is selected between the two parameters by "
        "what.contains(Repo) / what.contains(RemoteTracking) with the restored view on the true edge, and git_refs/"
        "git_heads come from the current view; at each caller argument 0 derives from the view of the operation being "
        "restored to (target op for `op restore`, the parent of the undone/redone op for undo/redo, the merged view "
        "for `op revert` after merge(reverted op, its parent)) and argument 1 from tx.base_repo().view(); the result "
        "reaches MutableRepo::set_view.")
    ctx.clauses = ["each restored portion is copied from the same-named field of the right source",
                   "selection by `what` has the right polarity", "callers pass (target view, current view) in order",
                   "op revert merges (reverted, parent) as (base, other)"]
    ctx.not_decided = ["undo-stack bookkeeping (operation descriptions)", "the immutable-@ exception",
                       "equality of visible commits after set_view (heads normalization, C10)"]
    rule_a(ctx)
    rule_c(ctx)
    rule_d(ctx)


def rule_a_overwrite_form(ctx, b, sl):
    """the function may also be written as `let mut v = current_view.clone(); if what.contains(X) { v.f = restored.f.clone(); }`:
    then every field of a portion must be overwritten from the same-named field of the restored view under that
    portion's test, and the git fields must not be overwritten"""
    F = ctx.F
    all_fields = {r["name"] for r in F.q("SELECT name FROM adt_field WHERE adt=?", (SV,))}
    known = REPO_FIELDS | REMOTE_FIELDS | GIT_FIELDS
    ctx.ob("C41.a/portion-table-complete", SV, all_fields == known, "every field is assigned to a portion" if
           all_fields == known else f"fields without a portion rule: {sorted(all_fields ^ known)}")
    rets = [j for j, bl in enumerate(b.blocks) if not bl.get("c") and bl["t"]["k"] == "return"]
    base_ok = False
    if rets:
        t = strip(sl.place([0], at=rets[0]))
        txt = show(t)
        base_ok = "current_view" in txt[:60] and "clone" in txt[:40]
    if not ctx.anchor("C41.b", "op_store::View literal or clone(current_view) + field overwrites", 1 if base_ok else 0, 1):
        return
    select = {}
    for c in b.calls:
        if c.cleanup or not name_matches(c.res or c.decl or "", "re:::contains$"):
            continue
        what = strip(sl.call_arg(c, 1))
        variant = what[2] if isinstance(what, tuple) and what[0] == "agg" else None
        trues, falses = bool_edges(F, b, c)
        if variant and trues:
            select[variant] = set(trues)
    writes = {}
    for i, blk in enumerate(b.blocks):
        if blk.get("c"):
            continue
        for st in blk["s"]:
            fl = [e for e in st["l"][1:] if isinstance(e, list) and e[0] == "f"]
            if fl and len(fl[0]) > 3 and fl[0][3] == SV:
                writes.setdefault(fl[0][2], []).append((i, sl._rvalue(st["r"], i)))
    for f in sorted(all_fields):
        ws = writes.get(f, [])
        if f in GIT_FIELDS:
            ctx.ob("C41.a/field-source", f, not ws, f"{f} keeps the current view's value" if not ws else
                   f"{f} is overwritten although Git refs/heads must stay as they are")
            continue
        want = "Repo" if f in REPO_FIELDS else "RemoteTracking"
        ok = False
        why = f"{f} is never overwritten from the restored view: it keeps its current value, so `undo`/`op restore` do not restore it"
        for i, t in ws:
            n = None
            for a in alts(t):
                a = norm(a)
                if isinstance(a, tuple) and a[0] == "field" and a[2] == SV:
                    n = a
            src_ok = n is not None and n[3] == f and {l[1] for l in term_leaves(n[1]) if l[0] == "param"} == {1}
            guard_ok = want in select and b.set_dominated(i, select[want])
            if src_ok and guard_ok:
                ok = True
            else:
                why = (f"{f} is overwritten from {show(t)[:80]}" if not src_ok else
                       f"{f} is overwritten outside the what.contains({want}) == true edge")
        ctx.ob("C41.a/field-source", f, ok, f"{f} := restored.{f} when `what` contains {want}" if ok else why)


def rule_a(ctx):
    F = ctx.F
    b = F.body(FN)
    if not ctx.anchor("C41.a", FN, 1 if b else 0, 1):
        return
    ctx.fn_seen(FN)
    sl = F.slicer(FN)
    agg = None
    for i, blk in enumerate(b.blocks):
        for s in blk["s"]:
            rv = s["r"]
            if rv["k"] == "agg" and rv.get("adt") == SV:
                agg = (i, rv)
    if not agg:
        return rule_a_overwrite_form(ctx, b, sl)
    i, rv = agg
    all_fields = {r["name"] for r in F.q("SELECT name FROM adt_field WHERE adt=?", (SV,))}
    lit_fields = set(rv["fields"])
    ctx.ob("C41.b/full-literal", FN, lit_fields == all_fields and len(rv["o"]) == len(all_fields),
           f"literal sets all {len(all_fields)} fields" if lit_fields == all_fields else
           f"fields not set explicitly: {sorted(all_fields - lit_fields)}")
    known = REPO_FIELDS | REMOTE_FIELDS | GIT_FIELDS
    ctx.ob("C41.a/portion-table-complete", SV, all_fields == known, "every field is assigned to a portion" if
           all_fields == known else f"fields without a portion rule: {sorted(all_fields ^ known)}")
    params = {1: b.local_name(1), 2: b.local_name(2)}
    # polarity: which parameter is chosen on the true edge of contains(Repo) / contains(RemoteTracking)
    select = {}
    for c in b.calls:
        if c.cleanup or not name_matches(c.res or c.decl or "", "re:::contains$"):
            continue
        what = strip(sl.call_arg(c, 1))
        variant = what[2] if isinstance(what, tuple) and what[0] == "agg" else None
        trues, falses = bool_edges(F, b, c)
        if variant and trues:
            select[variant] = (set(trues), set(falses))
    ctx.anchor("C41.a", "what.contains(..) selections", select, 2)
    for f, o in zip(rv["fields"], rv["o"]):
        t = sl.operand(o, at=i)
        srcs = set()
        names_ok = True
        for a in alts(t):
            n = norm(a)
            if isinstance(n, tuple) and n[0] == "field" and n[2] == SV:
                if n[3] != f:
                    names_ok = False
                base = n[1]
                for l in term_leaves(base):
                    if l[0] == "param":
                        srcs.add(l[1])
                    else:
                        names_ok = False
            else:
                names_ok = False
        if f in GIT_FIELDS:
            ok = names_ok and srcs == {2}
            why = "always the current view"
        else:
            ok = names_ok and srcs == {1, 2}
            why = "restored view or current view, selected by `what`"
        ctx.ob("C41.a/field-source", f, ok, f"{f} := {show(t)[:100]} ({why})" if ok else
               f"{f} is not a clone of the same field of the expected source(s): {show(t)[:160]}")
    # the variable feeding the repo fields is param1 on the true edge of contains(Repo)
    defs, _ = b.defs
    for variant, fields in (("Repo", REPO_FIELDS), ("RemoteTracking", REMOTE_FIELDS)):
        if variant not in select:
            ctx.ob("C41.a/selection-polarity", variant, False, f"no what.contains({variant}) test found")
            continue
        trues, falses = select[variant]
        # find the source local: the local whose alternatives are param1/param2 and which feeds a field in `fields`
        fidx = [k for k, f in enumerate(rv["fields"]) if f in fields][0]
        # walk back: operand -> clone call arg -> &(*src).field
        src_local = None
        for l, ds in defs.items():
            if len(ds) == 2 and all(d[2] == "assign" and d[3]["k"] in ("use", "ref") for d in ds):
                ts = [strip(sl._rvalue(d[3], d[0])) for d in ds]
                if {t[1] for t in ts if isinstance(t, tuple) and t[0] == "param"} == {1, 2}:
                    # does this local feed the field?
                    tt = sl.operand(rv["o"][fidx], at=i)
                    src_local = src_local or (l, ds)
                    # disambiguate between the two selector locals by checking dominance below
                    ok_true = all((strip(sl._rvalue(d[3], d[0]))[1] == 1) == b.set_dominated(d[0], trues) for d in ds)
                    ok_false = all((strip(sl._rvalue(d[3], d[0]))[1] == 2) == b.set_dominated(d[0], falses) for d in ds)
                    if ok_true and ok_false:
                        src_local = (l, ds, True)
                        break
        good = bool(src_local) and len(src_local) == 3
        ctx.ob("C41.a/selection-polarity", variant, good,
               f"restored view is selected on the contains({variant})==true edge" if good else
               f"the restored view is not what contains({variant}) selects")
    # each portion's fields hang off the right selector: Repo fields must NOT be selected by RemoteTracking and v.v.
    for f, o in zip(rv["fields"], rv["o"]):
        if f in GIT_FIELDS:
            continue
        p = o[1] if o[0] in ("c", "m") else None
        # reaching selector: the defs of the source local are dominated by edges of which test?
        t = sl.operand(o, at=i)
        want = "Repo" if f in REPO_FIELDS else "RemoteTracking"
        # find the local read in `&(*src).f`: search statements for a ref with field f
        src = None
        for blk in b.blocks:
            for s in blk["s"]:
                r = s["r"]
                if r["k"] == "ref" and any(isinstance(e, list) and e[0] == "f" and e[2] == f and len(e) > 3 and e[3] == SV for e in r["p"][1:]):
                    src = r["p"][0]
        ok = False
        if src is not None and want in select:
            ds = defs.get(src, [])
            trues, falses = select[want]
            ok = len(ds) == 2 and all(b.set_dominated(d[0], trues | falses) and
                                      (b.set_dominated(d[0], trues) or b.set_dominated(d[0], falses)) for d in ds)
        ctx.ob("C41.a/field-uses-right-selector", f, ok, f"{f} follows the `{want}` selection" if ok else
               f"{f} does not follow what.contains({want})")


def rule_c(ctx):
    F = ctx.F
    sites = F.all_calls_to(FN)
    ctx.anchor("C41.c", "callers of view_with_desired_portions_restored", sites, 4)
    expect = {
        "jj_cli::commands::operation::restore::cmd_op_restore": "target",
        "jj_cli::commands::undo::cmd_undo": "parent",
        "jj_cli::commands::redo::cmd_redo": "parent",
        "jj_cli::commands::operation::revert::cmd_op_revert": "merged",
    }
    for c in sites:
        root = c.body.root
        b = c.body
        ctx.fn_seen(b.id)
        sl = F.slicer(b.id, with_mutators=True)
        kind = expect.get(root)
        if kind is None:
            ctx.ob("C41.c/callers", root, False, "new caller of view_with_desired_portions_restored: roles unknown", where=c.where())
            continue
        a0, a1 = sl.call_arg(c, 0), sl.call_arg(c, 1)
        n0 = {x[1] for x in term_calls(a0)}
        n1 = {x[1] for x in term_calls(a1)}
        cur_ok = any(name_matches(n, "re:WorkspaceCommandTransaction.*::base_repo$") for n in n1) and \
            not any(name_matches(n, "re:^jj_lib::operation::Operation::view$") for n in n1)
        if kind in ("target", "parent"):
            tgt_ok = any(n == "jj_lib::operation::Operation::view" for n in n0) and \
                not any(name_matches(n, "re:::base_repo$") for n in n0)
            if kind == "target":
                tgt_ok = tgt_ok and any(name_matches(n, "re:resolve_single_op$") for n in n0)
            else:
                tgt_ok = tgt_ok and any(n == "jj_lib::operation::Operation::parents" for n in n0)
        else:
            tgt_ok = any(name_matches(n, "re:WorkspaceCommandTransaction.*::repo$") for n in n0) and \
                not any(name_matches(n, "re:::base_repo$") for n in n0)
        ctx.ob("C41.c/argument-roles", root, tgt_ok and cur_ok,
               f"({show(a0)[:90]}, {show(a1)[:70]})" if tgt_ok and cur_ok else
               f"arguments are not (view restored to, current view): {show(a0)[:140]} / {show(a1)[:120]}", where=c.where())
        # result installed with set_view
        sv = [x for x in b.calls_to(MR + "set_view")]
        inst = False
        for s in sv:
            t = sl.call_arg(s, 1)
            if any(x[3] and x[3][0] == b.id and x[3][1] == c.bb for x in term_calls(t)):
                inst = True
        ctx.ob("C41.c/result-installed", root, inst, "result passed to MutableRepo::set_view" if inst else
               "the computed view is not installed", where=c.where())
        if kind == "merged":
            ms = [m for m in b.calls_to(MR + "merge") if m.decl != "futures::Future::poll"]
            ok = False
            for m in ms:
                t1, t2 = sl.call_arg(m, 1), sl.call_arg(m, 2)
                p1 = any(x[1] == "jj_lib::operation::Operation::parents" for x in term_calls(t1))
                p2 = any(x[1] == "jj_lib::operation::Operation::parents" for x in term_calls(t2))
                l1 = any(name_matches(x[1], "re:RepoLoader::load_at$") for x in term_calls(t1))
                l2 = any(name_matches(x[1], "re:RepoLoader::load_at$") for x in term_calls(t2))
                if l1 and l2 and not p1 and p2 and b.set_dominated(c.bb, {m.bb}):
                    ok = True
            ctx.ob("C41.c/revert-merge-roles", root, ok,
                   "merge(repo at reverted op, repo at its parent) precedes the restore" if ok else
                   "op revert does not merge (reverted op as base, its parent as other) before restoring")


def _consts(t):
    return {w[1] for w in walk(t) if isinstance(w, tuple) and w[0] == "const" and isinstance(w[1], str)}


def rule_d(ctx):
    F = ctx.F
    FIN = "re:^jj_cli::cli_util::WorkspaceCommandTransaction::<.*>::finish$"
    for root, prefix_name in (("jj_cli::commands::undo::cmd_undo", "undo"), ("jj_cli::commands::redo::cmd_redo", "redo")):
        bs = bodies_with(F, root, FN)
        if not ctx.anchor("C41.d", f"{root} body", bs, 1):
            continue
        b = bs[0]
        ctx.fn_seen(b.id)
        sl = F.slicer(b.id)
        vc = b.calls_to(FN)[0]
        fin = [c for c in b.calls_to(FIN) if c.decl != "futures::Future::poll"]
        if not ctx.anchor("C41.d", f"{root}: tx.finish", fin, 1):
            continue
        restored = named = None
        restored_t = named_t = None
        for x in term_calls(sl.call_arg(vc, 0)):
            if x[1] == "jj_lib::operation::Operation::view":
                restored, restored_t = norm(x[2][0]), x[2][0]
        desc = sl.call_arg(fin[0], 2)
        for x in term_calls(desc):
            if x[1] == "jj_lib::operation::Operation::id":
                named, named_t = norm(x[2][0]), x[2][0]
        hexed = any(x[1].endswith("OperationId::hex") or x[1].endswith("::hex") for x in term_calls(desc))
        same = restored is not None and named is not None and restored == named
        ctx.ob("C41.d/description-names-the-restored-operation", root, same and hexed,
               "tx.finish(PREFIX + hex(id(op))) with op = the operation whose view was restored" if same and hexed else
               f"the {prefix_name}-operation's description names a different operation than the one restored "
               f"(restored {show(restored_t)[:70] if restored else '?'} / named {show(named_t)[:70] if named else '?'}): the next "
               f"{prefix_name} will continue from the wrong place", where=fin[0].where())
        wprefix = {c for c in _consts(desc) if c.endswith("restore to operation ")}
        # readers
        rprefix = set()
        loads_ok = True
        n_readers = 0
        for c in b.calls:
            if c.cleanup or not name_matches(c.res or c.decl or "", "re:str>::strip_prefix$"):
                continue
            n_readers += 1
            rprefix |= _consts(sl.call_arg(c, 1))
        for c in b.calls_to("jj_lib::repo::RepoLoader::load_operation"):
            if c.decl == "futures::Future::poll":
                continue
            t = sl.call_arg(c, 1)
            names = {x[1] for x in term_calls(t)}
            if not (any(n.endswith("::strip_prefix") for n in names) and any(n.endswith("OperationId::try_from_hex") for n in names)):
                loads_ok = False
        if root.endswith("cmd_undo"):
            agree = bool(wprefix) and wprefix == rprefix
            why = f"writer prefix {sorted(wprefix)}, reader prefixes {sorted(rprefix)}"
        else:
            # redo reads undo-operations (what to redo) and redo-operations (stack continuation)
            agree = bool(wprefix) and wprefix <= rprefix
            why = f"writer prefix {sorted(wprefix)}, reader prefixes {sorted(rprefix)}"
        ctx.ob("C41.d/prefix-agreement", root, agree and n_readers >= 2, why if agree else
               "the prefix written into the description is not the one the stack walker strips: " + why)
        ctx.ob("C41.d/stack-pointer-decoded-from-description", root, loads_ok,
               "load_operation(try_from_hex(strip_prefix(description)))" if loads_ok else
               "an operation is loaded from something other than the id recorded in the description")
