"""C12  Bookmark target merges resolve only when safe (roles, closure of the result, direction of the ancestry rule).

a. merge_ref_targets(left, base, right) treats the arguments in the roles (add, remove, add): both the trivial-merge
   probe and the general merge are built as [left, base, right]
b. the result never names a commit the inputs did not name: every Ok value is a clone of an input, the value chosen by
   resolve_trivial of the merged terms, or RefTarget::from_merge(merge) where `merge` is built from the three inputs and is
   afterwards changed only by Merge::swap_remove (dropping a remove/add pair)
c. a pair is dropped only in the safe direction: on the true edge of is_ancestor(x, y) between two adds it is the
   ANCESTOR x that is dropped (the descendant wins), and the remove dropped with it must itself be an ancestor of that
   add (or absent) -- otherwise the conflict is kept
d. merge_ref_targets_non_trivial applies (remove_index, add_index) as returned, in that order
"""
from jjv.lib import (alts, bool_edges, name_matches, norm, ok_exit_nodes, show, strip, term_calls, term_leaves, walk)

R = "jj_lib::refs::"


def params(t):
    return [l[2] for l in term_leaves(t) if l[0] == "param"]


def run(ctx):
    F = ctx.F
    ctx.explanation = (
        "Role, closure and polarity rules on the MIR of lib/src/refs.rs: the array given to trivial_merge and the vector "
        "given to Merge::from_vec in merge_ref_targets list parameters (left, base, right) in that order; every value "
        "wrapped in Ok derives from those parameters through clone / resolve_trivial / from_merge and the only mutation "
        "of the merge is swap_remove; in find_pair_to_remove the (index, id) pair selected on the true edge of "
        "is_ancestor(x, y) is x's, and the position search over removes tests is_ancestor(remove, that add) with absent "
        "counting as an ancestor; the non-trivial loop feeds (remove_index, add_index) to swap_remove un-swapped.")
    ctx.clauses = ["argument roles", "result built only from the inputs", "descendant wins, only along one line of history",
                   "indices applied as computed"]
    ctx.not_decided = ["Index::is_ancestor itself (C18)", "order dependence between several droppable pairs (acknowledged by a "
                       "TODO in the code)", "trivial_merge's cancellation rule (C02)"]
    rule_ab(ctx)
    rule_c(ctx)
    rule_d(ctx)


def body_of(ctx, root, must):
    bs = [b for b in ctx.F.family_bodies(root) if any(name_matches(c.res or c.decl or "", must) for c in b.calls if not c.cleanup)]
    if not ctx.anchor("C12", f"{root.split('::')[-1]} body", bs, 1):
        return None
    ctx.fn_seen(bs[0].id)
    return bs[0]


def rule_ab(ctx):
    F = ctx.F
    b = body_of(ctx, R + "merge_ref_targets", "re:Merge::<T>::from_vec$")
    if b is None:
        return
    sl = F.slicer(b.id)
    fv = b.calls_to("re:Merge::<T>::from_vec$")[0]
    items = []
    for w in walk(sl.call_arg(fv, 0)):
        if w[0] == "call" and w[1] == "[array]":
            items = list(w[2])
            break
    roles = [sorted(set(params(i))) for i in items]
    ok = roles == [["left"], ["base"], ["right"]]
    ctx.ob("C12.a/general-merge-roles", b.id, ok, "Merge::from_vec([left, base, right]) = left - base + right" if ok else
           f"the merged terms are {roles}: base must be the removed term between the two sides", where=fv.where())
    tm = b.calls_to("re:merge::trivial_merge$")
    if ctx.anchor("C12.a", "trivial_merge probe", tm, 1):
        items = []
        for w in walk(sl.call_arg(tm[0], 0)):
            if w[0] == "call" and w[1] == "[array]":
                items = list(w[2])
                break
        roles = [sorted(set(params(i))) for i in items]
        ok = roles == [["left"], ["base"], ["right"]]
        ctx.ob("C12.a/trivial-merge-roles", b.id, ok, "trivial_merge(&[left, base, right])" if ok else
               f"trivial_merge sees the terms as {roles}")
    # b: Ok payloads
    bad = []
    n = 0
    for i, blk in enumerate(b.blocks):
        if blk.get("c"):
            continue
        for st in blk["s"]:
            rv = st["r"]
            if rv["k"] == "agg" and rv.get("adt") == "std::result::Result" and rv.get("v") == "Ok":
                n += 1
                t = sl.operand(rv["o"][0], at=i)
                for a in alts(t):
                    names = {x[1] for x in term_calls(a)}
                    ps = set(params(a))
                    allowed_ctor = {nm for nm in names if name_matches(nm, (
                        "re:RefTarget::(resolved|from_merge|as_merge)$", "re:Merge::<T>::(from_vec|flatten|simplify|resolve_trivial)$",
                        "re:merge::trivial_merge$", "re:::clone$", "re:::deref$", "re:^std::", "re:^core::", "re:^alloc::",
                        "re:refs::merge_ref_targets_non_trivial$", "re:^\\[array\\]$", "re:box_assume_init_into_vec_unsafe$",
                        "re:Box::<T>::new_uninit$", "re:^<.*>::(clone|deref|into|from|branch|from_residual)$"))}
                    other = names - allowed_ctor
                    makers = {nm for nm in names if name_matches(nm, "re:RefTarget::(normal|absent|from_legacy_form)$|CommitId::(new|from_bytes|from_hex)$")}
                    if makers or not (ps <= {"left", "base", "right", "index", "_task_context"}):
                        bad.append(show(a)[:90])
    ctx.anchor("C12.b", "Ok(..) results in merge_ref_targets", n, 2)
    ctx.ob("C12.b/result-built-from-inputs", b.id, not bad,
           "every Ok value derives from left/base/right via clone, resolve_trivial or from_merge" if not bad else
           f"a result is constructed from something other than the three inputs: {bad[0]}")
    # mutators of the merge between from_vec and from_merge: only the non-trivial helper; inside it only swap_remove
    nb = body_of(ctx, R + "merge_ref_targets_non_trivial", "re:Merge::<T>::swap_remove$")
    if nb is not None:
        muts = {(c.res or c.decl or "").split("::")[-1] for c in nb.calls if not c.cleanup and
                name_matches(c.res or c.decl or "", "re:^jj_lib::merge::Merge::<T>::")}
        ok = muts <= {"swap_remove", "adds", "removes", "iter", "as_slice", "num_sides", "is_resolved"} and "swap_remove" in muts
        ctx.ob("C12.b/only-pairs-are-dropped", nb.id, ok, "the conflict is changed only by swap_remove(remove, add)" if ok else
               f"merge_ref_targets_non_trivial changes the conflict through {sorted(muts)}")


def rule_c(ctx):
    F = ctx.F
    b = body_of(ctx, R + "find_pair_to_remove", "re:Index::is_ancestor$")
    if b is None:
        return
    sl = F.slicer(b.id)
    ancs = [c for c in b.calls if not c.cleanup and (c.res or c.decl) == "jj_lib::index::Index::is_ancestor"]
    ctx.anchor("C12.c", "is_ancestor tests between adds", ancs, 2)
    for c in ancs:
        x = repr(norm(sl.call_arg(c, 1)))
        y = repr(norm(sl.call_arg(c, 2)))
        # the boolean is `is_ancestor(..).await?`: find the switch fed by this call
        tr = set()
        for bb, t in b.switches():
            from jjv.lib import op_place
            p = op_place(t["o"])
            if p is None or b.locals[p[0]] != "bool":
                continue
            term = sl.place(p, at=bb)
            if any(z[3] and z[3][0] == b.id and z[3][1] == c.bb for z in term_calls(term)):
                tr.add(b.edge_node(bb, "else"))
        picked = None
        for i, blk in enumerate(b.blocks):
            if blk.get("c") or not tr or not b.set_dominated(i, tr):
                continue
            for st in blk["s"]:
                rv = st["r"]
                if rv["k"] == "agg" and len(rv.get("o", [])) == 2 and rv.get("adt") is None:
                    t1 = repr(norm(sl.operand(rv["o"][1], at=i)))
                    if t1 == x:
                        picked = "ancestor"
                    elif t1 == y:
                        picked = "descendant"
        ctx.ob("C12.c/descendant-wins", f"is_ancestor@L{b.blocks[c.bb]['t'].get('ln', 0)}", picked == "ancestor",
               "when add x is an ancestor of add y, x is the one dropped" if picked == "ancestor" else
               f"on the true edge of is_ancestor(x, y) the pair selected for removal is {picked or 'not identified'}: the "
               f"bookmark would move backwards / a side is picked arbitrarily", where=c.where())
    # the remove dropped with it is an ancestor of that add, or absent
    inner = [bb for bb in F.family_bodies(R + "find_pair_to_remove") if bb.id != b.id and
             any((c.res or c.decl) == "jj_lib::index::Index::is_ancestor" for c in bb.calls if not c.cleanup)]
    fp = b.calls_to("re:iter_util::fallible_position$")
    ok = False
    if inner and fp:
        ib = inner[0]
        ctx.fn_seen(ib.id)
        isl = F.slicer(ib.id)
        ia = [c for c in ib.calls if not c.cleanup and (c.res or c.decl) == "jj_lib::index::Index::is_ancestor"][0]
        a1, a2 = isl.call_arg(ia, 1), isl.call_arg(ia, 2)
        from_remove = "remove" in params(a1)
        from_add = "remove" not in params(a2)
        over_removes = any(name_matches(z[1], "re:Merge::<T>::removes$") for z in term_calls(sl.call_arg(fp[0], 0)))
        ok = from_remove and from_add and over_removes
    ctx.ob("C12.c/removed-base-is-an-ancestor-of-the-dropped-add", b.id, ok,
           "fallible_position(conflict.removes(), |r| is_ancestor(r, add) or r is absent)" if ok else
           "the remove paired with the dropped add is not required to be its ancestor: divergent moves would be resolved by "
           "picking a side instead of recording a conflict")


def rule_d(ctx):
    F = ctx.F
    nb = [b for b in F.family_bodies(R + "merge_ref_targets_non_trivial") if b.calls_to("re:Merge::<T>::swap_remove$")]
    if not nb:
        return
    b = nb[0]
    sl = F.slicer(b.id)
    c = b.calls_to("re:Merge::<T>::swap_remove$")[0]
    t1, t2 = strip(sl.call_arg(c, 1)), strip(sl.call_arg(c, 2))

    def idx(t):
        for w in walk(t):
            if w[0] == "field" and w[2] == "(tuple)":
                return str(w[3])
        return None
    ok = idx(t1) == "0" and idx(t2) == "1" and all(any(name_matches(z[1], "re:refs::find_pair_to_remove$") for z in term_calls(t)) for t in (t1, t2))
    ctx.ob("C12.d/indices-applied-as-computed", b.id, ok, "swap_remove(pair.0 = remove_index, pair.1 = add_index)" if ok else
           f"swap_remove receives ({idx(t1)}, {idx(t2)}) of find_pair_to_remove's result: the wrong term is dropped", where=c.where())
