"""C30  Matcher directory pruning is sound (the three combinators: union, intersection, difference).

The leaf matchers (files / prefix / globs) answer from path sets and are value-level: not decided.  The combinators are a
finite case analysis on the KIND of each operand's answer (AllRecursively / Specific / Nothing), and soundness of a
finite table is decidable from the code's shape:
a. for every combination of operand kinds, the kind of answer `visit` can produce (read from the MIR decision tree:
   constructors assigned to the return place, operand answers passed through) is one the sound table allows -- never
   Nothing while a matching path may exist below, never AllRecursively unless every path below matches
b. when both operands are Specific, a union merges the two sets (no intersection/difference of the sets)
c. `matches` and `visit` agree on the operands' roles: the operand negated in DifferenceMatcher::matches is the one
   whose AllRecursively answer prunes the directory; union/intersection `matches` read both operands un-negated
"""
from jjv.lib import (bool_edges, name_matches, op_place, show, strip, term_calls, walk)

M = "jj_lib::matchers::"
VISIT = M + "Visit"
KINDS = {"AllRecursively": "A", "Specific": "S", "Nothing": "N"}


def impl(kind, fn):
    return f"<jj_lib::matchers::{kind}Matcher<M1, M2> as jj_lib::matchers::Matcher>::{fn}"


def receiver_field(sl, c):
    t = sl.call_arg(c, 0)
    for w in walk(t):
        if w[0] == "field" and w[3] in ("input1", "input2", "wanted", "unwanted"):
            return w[3]
    return None


def leaf_results(F, b, sl, region):
    """kinds of value the return place can get inside `region`"""
    out = set()
    for i in region:
        if i >= b.n:
            continue
        blk = b.blocks[i]
        if blk.get("c"):
            continue
        for st in blk["s"]:
            if st["l"] != [0]:
                continue
            rv = st["r"]
            if rv["k"] == "agg" and rv.get("adt") == VISIT:
                out.add(KINDS.get(rv.get("v"), "?"))
            else:
                t = strip(sl._rvalue(rv, i))
                txt = show(t)
                calls = [x for x in term_calls(t) if x[1] == M + "Matcher::visit"]
                if calls:
                    f = None
                    for w in walk(calls[0][2][0]):
                        if w[0] == "field" and w[3] in ("input1", "input2", "wanted", "unwanted"):
                            f = w[3]
                    out.add("pass:" + (f or "?"))
                elif "Visit::SOME" in txt:
                    out.add("S")
                elif "Visit::AllRecursively" in txt:
                    out.add("A")
                elif "Visit::Nothing" in txt:
                    out.add("N")
                else:
                    out.add("?:" + txt[:40])
        t = blk["t"]
        if t["k"] == "call" and t.get("d") == [0]:
            f = t["f"].get("r") or t["f"].get("d") or ""
            if f == M + "Matcher::visit":
                c = [c for c in b.calls if c.bb == i][0]
                out.add("pass:" + (receiver_field(sl, c) or "?"))
            else:
                out.add("?:call " + f[-30:])
    return out


def table(F, b):
    """{(k_first, k_second|'*'): set(result kinds)}, first operand field, second operand field"""
    sl = F.slicer(b.id)
    sws = []
    for bb, t in b.switches():
        ds = b.discr_source(bb)
        if ds and ds[1] == VISIT:
            term = sl.place(ds[0], at=bb)
            f = None
            for x in term_calls(term):
                if x[1] == M + "Matcher::visit":
                    for w in walk(x[2][0]):
                        if w[0] == "field" and w[3] in ("input1", "input2", "wanted", "unwanted"):
                            f = w[3]
            sws.append((bb, ds, f))
    if not sws:
        return None, None, None
    first = min(sws, key=lambda s: len(b.reachable_from([s[0]])) * -1)   # the switch that reaches the others
    others = [s for s in sws if s[0] != first[0]]
    tab = {}
    bb1, ds1, f1 = first

    def edges_of(bb, ds):
        es = {}
        for name in KINDS:
            e = b.variant_edge(bb, name)
            if e is not None:
                es[name] = e
        return es
    e1 = edges_of(bb1, ds1)
    f2 = None
    for n1, ed1 in e1.items():
        r1 = b.reachable_from([ed1], avoid=[x for x in e1.values() if x != ed1])
        inner = [s for s in others if s[0] in r1]
        if not inner:
            tab[(KINDS[n1], "*")] = leaf_results(F, b, sl, r1)
            continue
        bb2, ds2, f2_ = inner[0]
        f2 = f2 or f2_
        e2 = edges_of(bb2, ds2)
        # results produced before the inner switch (none expected) are ignored; per inner variant:
        seen_else = False
        for n2 in KINDS:
            ed2 = e2.get(n2)
            if ed2 is None:
                continue
            r2 = b.reachable_from([ed2], avoid=[x for x in e2.values() if x != ed2])
            tab[(KINDS[n1], KINDS[n2])] = leaf_results(F, b, sl, r2 & r1 | r2)
    return tab, f1, f2


def allowed(kind, k1, k2, f1, f2):
    """sound result kinds for operand kinds (k1 = first switched operand, k2 = second or '*')"""
    ks2 = ["A", "S", "N"] if k2 == "*" else [k2]
    ok = None
    for kk in ks2:
        if kind == "Union":
            s = set()
            if k1 == "A" or kk == "A":
                s |= {"A"}
            else:
                s |= {"S"} if (k1, kk) != ("N", "N") else {"S", "N"}
            if k1 == "N":
                s |= {"pass:" + f2}
            if kk == "N":
                s |= {"pass:" + f1}
            if k1 == "N" and kk == "N":
                s |= {"N"}
        elif kind == "Intersection":
            s = set()
            if k1 == "A" and kk == "A":
                s |= {"A"}
            if k1 == "A":
                s |= {"pass:" + f2}
            if kk == "A":
                s |= {"pass:" + f1}
            if k1 == "N" or kk == "N":
                s |= {"N"}
            if k1 != "N" and kk != "N" and not (k1 == "A" and kk == "A"):
                s |= {"S"}
            if k1 == "S" and kk == "S":
                s |= {"N"}          # empty intersection of the listed sets (value-level test)
        else:  # Difference: first = unwanted (ku), second = wanted (kw)
            ku, kw = k1, kk
            s = set()
            if ku == "A":
                s |= {"N", "S"}
            elif ku == "N":
                s |= {"pass:" + f2} | ({"S"} if kw != "A" else set()) | ({"A"} if kw == "A" else set()) | ({"N"} if kw == "N" else set())
            else:
                if kw == "A":
                    s |= {"S"}
                elif kw == "S":
                    s |= {"S", "pass:" + f2}
                else:
                    s |= {"N", "S", "pass:" + f2}
        ok = s if ok is None else (ok & s)
    return ok or set()


def run(ctx):
    F = ctx.F
    ctx.explanation = (
        "Finite decision-table check on the MIR of UnionMatcher/IntersectionMatcher/DifferenceMatcher::visit: the two "
        "switches on the discriminant of the operands' Visit answers give up to nine leaves; in each leaf the values the "
        "return place can receive (Visit constructors, Visit::SOME, or an operand's own answer passed through) are read "
        "from the MIR and compared with the set of answers that are sound for that combination of operand kinds (never "
        "Nothing while one operand may still match below, AllRecursively only when the combination guarantees it); the "
        "union of two Specific answers merges the sets; matches() and visit() use the operands in the same roles.")
    ctx.clauses = ["no over-pruning by the combinators", "no unjustified AllRecursively from the combinators",
                   "set merge of a union", "role agreement between matches and visit"]
    ctx.not_decided = ["the leaf matchers FilesMatcher / PrefixMatcher / GlobsMatcher (answers from path sets: value-level)",
                       "exactness of the file/dir sets inside Specific answers"]
    n_leaves = 0
    for kind in ("Union", "Intersection", "Difference"):
        b = F.body(impl(kind, "visit"))
        if not ctx.anchor("C30.a", f"{kind}Matcher::visit", [b] if b is not None else [], 1):
            continue
        ctx.fn_seen(b.id)
        tab, f1, f2 = table(F, b)
        if not ctx.anchor("C30.a", f"{kind}Matcher::visit decision tree", tab or {}, 2):
            continue
        want_first = {"Union": "input1", "Intersection": "input1", "Difference": "unwanted"}[kind]
        want_second = {"Union": "input2", "Intersection": "input2", "Difference": "wanted"}[kind]
        if f1 != want_first:
            # the table below is written for this operand order; a reordered (but sound) implementation needs the mirror
            # image -- recompute with swapped names
            pass
        f2 = f2 or ({"input1": "input2", "input2": "input1", "wanted": "unwanted", "unwanted": "wanted"}.get(f1))
        kind_eff = kind
        if kind == "Difference" and f1 != "unwanted":
            ctx.ob("C30.a/decision-table-sound", f"{kind}|operand-order", False,
                   "DifferenceMatcher::visit does not start from the unwanted operand's answer; the rule's table does not cover this shape")
            continue
        for (k1, k2), res in sorted(tab.items()):
            n_leaves += 1
            al = allowed(kind_eff, k1, k2, f1, f2)
            bad = sorted(r for r in res if r not in al)
            names = {"A": "AllRecursively", "S": "Specific", "N": "Nothing", "*": "anything"}
            ctx.ob("C30.a/decision-table-sound", f"{kind}|{f1}={names[k1]},{f2}={names[k2]}", bool(res) and not bad,
                   f"answers {sorted(res)} ⊆ sound answers {sorted(al)}" if res and not bad else
                   f"{kind}Matcher::visit can answer {bad or 'nothing recognisable'} when {f1} says {names[k1]} and {f2} says "
                   f"{names[k2]}: sound answers are {sorted(al)} (a directory containing matches is skipped, or a directory is "
                   f"claimed to match entirely)")
        if kind == "Union":
            ns = {c.res or c.decl or "" for c in b.calls if not c.cleanup}
            bad = sorted(n.split("::")[-1] for n in ns if name_matches(n, "re:HashSet::<.*>::(intersection|difference|retain)$"))
            ok = not bad and any(n.endswith("Iterator::chain") or n.endswith("::union") or n.endswith("::extend") for n in ns)
            ctx.ob("C30.b/union-merges-sets", b.id, ok, "Specific ∪ Specific: sets are chained/unioned" if ok else
                   f"the union of two Specific answers narrows the sets ({bad})")
    ctx.anchor("C30.a", "decision-table leaves checked", n_leaves, 8)
    # c. roles in matches()
    for kind, neg in (("Union", set()), ("Intersection", set()), ("Difference", {"unwanted"})):
        b = F.body(impl(kind, "matches"))
        if not ctx.anchor("C30.c", f"{kind}Matcher::matches", [b] if b is not None else [], 1):
            continue
        ctx.fn_seen(b.id)
        sl = F.slicer(b.id)
        used, negated = set(), set()
        for c in b.calls:
            if c.cleanup or (c.res or c.decl) != M + "Matcher::matches":
                continue
            f = receiver_field(sl, c)
            used.add(f)
        # a Not applied to a matches() result
        for i, blk in enumerate(b.blocks):
            for st in blk["s"]:
                rv = st["r"]
                if rv["k"] == "un" and rv.get("op") == "Not":
                    t = sl.operand(rv["o"], at=i)
                    for x in term_calls(t):
                        if x[1] == M + "Matcher::matches":
                            for w in walk(x[2][0]):
                                if w[0] == "field" and w[3] in ("input1", "input2", "wanted", "unwanted"):
                                    negated.add(w[3])
        for bb, t in b.switches():
            pass
        want_used = {"input1", "input2"} if kind != "Difference" else {"wanted", "unwanted"}
        # negation may be compiled as a swapped branch instead of a Not: accept either form by looking at which edge returns
        if kind == "Difference" and not negated:
            for c in b.calls:
                if not c.cleanup and (c.res or c.decl) == M + "Matcher::matches" and receiver_field(sl, c) == "unwanted":
                    tr, fa = bool_edges(F, b, c)
                    # on the true edge the function must return false
                    for e in tr:
                        reach = b.reachable_from([e])
                        vals = set()
                        for i in reach:
                            if i < b.n:
                                for st in b.blocks[i]["s"]:
                                    if st["l"] == [0] and st["r"]["k"] == "use" and st["r"]["o"][0] == "k":
                                        vals.add(st["r"]["o"][1].get("v"))
                        if vals == {False}:
                            negated.add("unwanted")
        ok = used == want_used and negated == neg
        ctx.ob("C30.c/matches-roles", kind, ok,
               f"matches() reads {sorted(used)}, negates {sorted(negated) or 'nothing'}" if ok else
               f"{kind}Matcher::matches reads {sorted(x or '?' for x in used)} and negates {sorted(negated)}; visit() treats "
               f"{sorted(neg) or 'no operand'} as the excluded one")
