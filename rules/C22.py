"""C22  Changed-path index agrees with tree diffs (recording side and query side use the same diff definition).

a. collect_changed_paths records the paths of diff_stream(merge of the parents' trees, commit tree, EverythingMatcher)
   that remain changed after resolving the parent-side file values
b. the unindexed query (has_diff_from_parent) computes the same thing with the same helpers (sibling agreement)
c. the file() predicate applies the same matcher to the recorded paths as it would pass to the unindexed query
d. recorded paths enter the index only from collect_changed_paths (or by copying existing segments)
e. the positional pairing commit <-> recorded paths: add_commit records paths only for a commit that was really appended
   at the position the path index expects next, and for that commit; merge_in copies the paths of the same commit id
"""
from jjv.lib import (alts, bool_edges, name_matches, norm, show, strip, term_calls, term_leaves, walk)

DI = "jj_lib::default_index::"
COLLECT = DI + "changed_path::collect_changed_paths"
HASDIFF = DI + "revset_engine::has_diff_from_parent"
HELPERS = ("jj_lib::rewrite::merge_commit_trees_no_resolve_without_repo", "jj_lib::merged_tree::MergedTree::diff_stream",
           "jj_lib::tree_merge::resolve_file_values", "jj_lib::commit::Commit::tree", "jj_lib::commit::Commit::parents")


def all_alts(t):
    """alternatives of a value, looking through try/await/ref wrappers at each level"""
    out = []
    for a in alts(t):
        a2 = strip(a)
        if isinstance(a2, tuple) and a2[0] == "alt":
            out.extend(all_alts(a2))
        else:
            out.append(a2)
    return out


def shape(ctx, root):
    """(helper callees used, (from, to, matcher) provenance of the diff_stream call, is_changed filter present)"""
    F = ctx.F
    fam = F.family_bodies(root)
    used = set()
    ds = None
    changed = False
    for b in fam:
        ctx.fn_seen(b.id)
        sl = F.slicer(b.id)
        for c in b.calls:
            if c.cleanup:
                continue
            n = c.res or c.decl or ""
            if n in HELPERS:
                used.add(n)
            if name_matches(n, "re:merge::Diff::<T>::is_changed$|Diff.*::is_changed$"):
                changed = True
            if n == "jj_lib::merged_tree::MergedTree::diff_stream":
                ds = (sl.call_arg(c, 0), sl.call_arg(c, 1), sl.call_arg(c, 2), c)
    return used, ds, changed


def run(ctx):
    F = ctx.F
    ctx.explanation = (
        "Sibling cross-check on MIR: the function that fills the changed-path index (collect_changed_paths) and the "
        "function that answers a file query without the index (has_diff_from_parent) must compute the same diff: both "
        "call Commit::parents, merge_commit_trees_no_resolve_without_repo, Commit::tree, MergedTree::diff_stream and "
        "resolve_file_values, pass (merged parents, commit tree) in that order, and keep an entry only if "
        "Diff::is_changed; the recorder uses EverythingMatcher (no narrowing); the file() predicate applies the same "
        "matcher value to the recorded paths and to the fallback; changed paths are added to the index only from "
        "collect_changed_paths results or when copying existing segments.")
    ctx.clauses = ["recorder and unindexed query share the diff definition", "recorder does not narrow the diff",
                   "query uses one matcher for both paths", "who may add changed paths"]
    ctx.not_decided = ["that the recorded path set equals the diff's path set for every history (value-level)",
                       "copy tracking", "segment (de)serialisation of paths"]
    ua, da, ca = shape(ctx, COLLECT)
    ub, db, cb = shape(ctx, HASDIFF)
    if not ctx.anchor("C22.a", COLLECT, 1 if da else 0, 1) or not ctx.anchor("C22.b", HASDIFF, 1 if db else 0, 1):
        return
    for h in HELPERS:
        ctx.ob("C22.b/same-helpers", h.split("::")[-1], (h in ua) and (h in ub),
               "used by both the recorder and the unindexed query" if h in ua and h in ub else
               f"used by {'recorder only' if h in ua else 'query only' if h in ub else 'neither'}: the two sides no longer "
               f"compute the same diff")
    ctx.ob("C22.b/changed-filter-on-both", "Diff::is_changed", ca and cb, "both keep only entries that are still changed "
           "after resolving the parent side" if ca and cb else "only one side filters unchanged entries")
    for who, d in (("recorder", da), ("query", db)):
        frm, to, m, c = d
        fa, ta = all_alts(frm), all_alts(to)
        ok_from = all(any(x[1] == HELPERS[0] for x in term_calls(a)) and any(x[1] == HELPERS[4] for x in term_calls(a)) for a in fa)
        ok_to = all(any(x[1] == HELPERS[3] for x in term_calls(a)) and not any(x[1] == HELPERS[0] for x in term_calls(a)) for a in ta)
        ctx.ob("C22.a/diff-from-merged-parents-to-commit", who, ok_from and ok_to,
               "diff_stream(merge(parents' trees), commit.tree(), ..)" if ok_from and ok_to else
               f"diff base/target are not (merged parents, commit tree): {show(frm)[:80]} / {show(to)[:80]}", where=c.where())
    mt = strip(da[2])
    everything = (isinstance(mt, tuple) and mt[0] in ("agg", "const", "static") and "EverythingMatcher" in str(mt)) or \
        "EverythingMatcher" in show(da[2])
    ctx.ob("C22.a/recorder-does-not-narrow", COLLECT, everything, "matcher = EverythingMatcher" if everything else
           f"the recorder restricts the diff with {show(da[2])[:80]}: paths outside it are never recorded")
    qm = strip(db[2])
    ctx.ob("C22.b/query-uses-its-matcher-parameter", HASDIFF, isinstance(qm, tuple) and qm[0] == "param" and qm[2] == "matcher",
           "diff_stream(.., matcher)")
    rule_c(ctx)
    rule_d(ctx)
    rule_e(ctx)


def rule_c(ctx):
    F = ctx.F
    MATCHES_DIFF = DI + "revset_engine::matches_diff_from_parent"
    # closures of build_predicate_fn that consult changed_paths(pos) and fall back to / continue with a tree diff
    n = 0
    for fid in F.find_fns("re:^jj_lib::default_index::revset_engine::build_predicate_fn"):
        b = F.body(fid)
        calls = [c for c in b.calls if not c.cleanup]
        hd = [c for c in calls if (c.res or "") in (HASDIFF, MATCHES_DIFF)]
        cp = [c for c in calls if name_matches(c.res or c.decl or "", "re:CompositeChangedPathIndex::changed_paths$")]
        if not hd or not cp:
            continue
        n += 1
        ctx.fn_seen(fid)
        sl = F.slicer(fid, cross_closure=False)
        argi = 3 if hd[0].res == HASDIFF else 4
        m_diff = sl.call_arg(hd[0], argi)
        up_diff = {w[2] for w in walk(m_diff) if w[0] == "upvar"}
        # closures over the recorded paths that call Matcher::matches: which captured matcher do they use?
        up_pred = set()
        for c in calls:
            if c.decl not in ("std::iter::Iterator::any", "std::iter::Iterator::filter"):
                continue
            pred = sl.call_arg(c, 1)
            for x in term_calls(pred):
                if not x[1].startswith("closure:"):
                    continue
                cb = F.body(x[1][8:])
                if cb is not None and any(c2.decl == "jj_lib::matchers::Matcher::matches" for c2 in cb.calls if not c2.cleanup):
                    up_pred |= {w[2] for y in x[2] for w in walk(y) if w[0] == "upvar"}
        ok = bool(up_pred) and up_pred == up_diff
        ctx.ob("C22.c/same-matcher-with-and-without-index", fid, ok,
               f"recorded paths are tested with the very matcher ({sorted(up_pred)}) given to the tree-diff query" if ok else
               f"the indexed and unindexed branches use different matchers: recorded paths tested with {sorted(up_pred)}, "
               f"tree diff with {sorted(up_diff)}")
    ctx.anchor("C22.c", "predicate closures using the changed-path index (file(), diff_lines())", n, 2)


def rule_d(ctx):
    F = ctx.F
    ADD = DI + "changed_path::CompositeChangedPathIndex::add_changed_paths"
    sites = [c for c in F.all_calls_to(ADD, crates=("jj_lib",))]
    ctx.anchor("C22.d", "callers of CompositeChangedPathIndex::add_changed_paths", sites, 2)
    for c in sites:
        sl = F.slicer(c.body.id)
        t = sl.call_arg(c, 1)
        from_collect = any(x[1] == COLLECT for x in term_calls(t))
        copy = c.body.root == DI + "mutable::DefaultMutableIndex::merge_in" or \
            any(name_matches(x[1], "re:changed_paths$") for x in term_calls(t))
        ok = from_collect or copy
        ctx.ob("C22.d/recorded-paths-come-from-the-diff", c.body.root, ok,
               "paths = collect_changed_paths(..)" if from_collect else ("copies paths already recorded for that commit" if copy
               else f"changed paths recorded from another source: {show(t)[:120]}"), where=c.where())


def rule_e(ctx):
    F = ctx.F
    M = DI + "mutable::DefaultMutableIndex::"
    NEXT = DI + "changed_path::CompositeChangedPathIndex::next_mutable_commit_pos"
    done = 0
    for b in F.family_bodies(M + "add_commit"):
        rec = b.calls_to(M + "add_commit_changed_paths")
        if not rec:
            continue
        done += 1
        ctx.fn_seen(b.id)
        sl = F.slicer(b.id)
        add = b.calls_to(M + "add_commit_data")
        nums = b.calls_to(M + "num_commits")
        nxt = b.calls_to(NEXT)
        if not (ctx.anchor("C22.e", "add_commit: add_commit_data / num_commits / next_mutable_commit_pos", min(len(add), len(nxt), len(nums) // 2), 1)):
            return
        r = rec[0]
        # 1. same commit on both sides
        c_rec = {w for w in term_leaves(sl.call_arg(r, 1)) if w[0] in ("param", "upvar")}
        c_add = {w for w in term_leaves(sl.call_arg(add[0], 1)) if w[0] in ("param", "upvar")}
        ctx.ob("C22.e/paths-recorded-for-the-appended-commit", b.root, bool(c_rec) and c_rec == c_add,
               "add_commit_data(commit.id(), ..) and add_commit_changed_paths(commit) take the same commit" if c_rec and c_rec == c_add
               else f"the commit whose paths are recorded ({sorted(map(str, c_rec))}) is not the one appended ({sorted(map(str, c_add))})",
               where=r.where())
        # 2. expected-position guard: Some(pos-before-append) == next_mutable_commit_pos() on the true edge
        before = [n for n in nums if add[0].bb in b.after(n.bb)]
        after_ = [n for n in nums if n.bb in b.after(add[0].bb)]
        eqs = [c for c in b.calls if not c.cleanup and c.decl == "std::cmp::PartialEq::eq"]
        guard_pos, guard_new = set(), set()
        for e in eqs:
            ts = [sl.call_arg(e, 0), sl.call_arg(e, 1)]
            ids = set()
            for t in ts:
                for x in term_calls(t):
                    ids.add((x[1], x[3][1] if len(x) > 3 and x[3] else None))
            has_before = any((M + "num_commits", n.bb) in ids for n in before)
            has_after = any((M + "num_commits", n.bb) in ids for n in after_)
            has_next = any(i[0] == NEXT for i in ids)
            tr, fa = bool_edges(F, b, e)
            if has_before and has_next:
                guard_pos |= set(tr)
            if has_before and has_after:
                guard_new |= set(fa)       # positions differ => something was appended
        ok_pos = bool(guard_pos) and b.set_dominated(r.bb, guard_pos)
        ctx.ob("C22.e/recorded-only-at-the-expected-position", b.root, ok_pos,
               "add_commit_changed_paths runs only when next_mutable_commit_pos() == Some(position the commit was appended at)"
               if ok_pos else "paths can be recorded although the path index expects a different commit position next "
               "(every later commit would be paired with another commit's paths)", where=r.where())
        ok_new = bool(guard_new) and b.set_dominated(r.bb, guard_new)
        ctx.ob("C22.e/recorded-only-if-appended", b.root, ok_new,
               "add_commit_changed_paths runs only when num_commits() grew (commit was not already indexed)" if ok_new else
               "paths can be recorded for a commit that was already indexed: the entry is then paired with the next commit",
               where=r.where())
    ctx.anchor("C22.e", "DefaultMutableIndex::add_commit body calling add_commit_changed_paths", done, 1)
    # merge_in: paths copied for the same commit id
    mb = [b for b in F.family_bodies(M + "merge_in") if b.calls_to(DI + "changed_path::CompositeChangedPathIndex::changed_paths")]
    if not ctx.anchor("C22.e", "merge_in body reading other's changed paths", mb, 1):
        return
    b = mb[0]
    ctx.fn_seen(b.id)
    sl = F.slicer(b.id)
    c = b.calls_to(DI + "changed_path::CompositeChangedPathIndex::changed_paths")[0]
    t = sl.call_arg(c, 1)
    names = [x[1] for x in term_calls(t)]
    ok = any(n.endswith("::commit_id_to_pos") for n in names) and any(n.endswith("::commit_id") for n in names) \
        and any(n.endswith("::entry_by_pos") for n in names)
    ctx.ob("C22.e/merge-copies-paths-of-the-same-commit", b.root, ok,
           "other.changed_paths(other.commit_id_to_pos(self.entry_by_pos(self_pos).commit_id()))" if ok else
           f"position looked up in the other index is not derived from the commit id at the new position: {show(t)[:140]}",
           where=c.where())
    nx = b.calls_to(NEXT)
    eqs = [e for e in b.calls if not e.cleanup and e.decl == "std::cmp::PartialEq::eq"]
    g = set()
    for e in eqs:
        ids = {x[1] for a in (0, 1) for x in term_calls(sl.call_arg(e, a))}
        if NEXT in ids and M + "num_commits" in ids:
            g |= set(bool_edges(F, b, e)[0])
    add = b.calls_to(DI + "changed_path::CompositeChangedPathIndex::add_changed_paths")
    ok = bool(g) and bool(add) and all(b.set_dominated(a.bb, g) for a in add)
    ctx.ob("C22.e/merge-copies-only-at-the-expected-position", b.root, ok,
           "copies only when next_mutable_commit_pos() == Some(first merged position)" if ok else
           "paths copied although the path index expects a different position next")
