"""C23  Snapshots record exactly what is on disk (structural part: which paths may be skipped, where recorded values
come from).

a. the three filters that leave a present file out of the snapshot -- ignored, not auto-tracked, too large -- apply
   only to paths that are NOT already tracked: every skip site in FileSnapshotter::process_dir_entry is dominated by
   the `no current file state` edge
b. an ignored directory is not dropped: on the ignored edge the tracked files below it are still visited
   (visit_tracked_files over the directory's file states)
c. every visited directory reports the tracked entries that are no longer present (emit_deleted_files gets the file
   states and the present entries of that directory), and each such path yields a deletion
d. what is recorded for a present file comes from the disk: content through write_file_to_store/File::open(disk_path)
   (C29.a), symlink target through read_link(disk_path), the executable bit through the metadata of that path
"""
from jjv.lib import (bodies_with, bool_edges, find_ok_nodes, name_matches, op_place, show, strip, term_calls, walk)

LW = "jj_lib::local_working_copy::"
FSN = LW + "FileSnapshotter::<'_>::"


def run(ctx):
    F = ctx.F
    ctx.explanation = (
        "Must-be-guarded and must-reach rules on the MIR of the snapshot walk: in process_dir_entry the calls that decide "
        "a skip (GitIgnoreFile::matches_file, the start-tracking matcher, the sends on untracked_paths_tx) lie only on "
        "true edges of `maybe_current_file_state.is_none()`, so a tracked file always reaches process_present_file; on the "
        "ignored-directory edge a task calling visit_tracked_files(file_states of that directory) is spawned; "
        "visit_directory hands the directory's file states and present entries to emit_deleted_files, whose iteration sends "
        "one deletion per remaining tracked path; symlink targets come from read_link(disk_path) and the executable bit "
        "from the metadata of the entry.")
    ctx.clauses = ["tracked files are never filtered out", "tracked files below ignored directories are still visited",
                   "vanished tracked paths are reported as deleted", "recorded values come from the disk path"]
    ctx.not_decided = ["that the recorded tree equals the directory contents (runtime file-system state)",
                       "file <-> directory replacement sequencing", "Windows-only branches"]
    rule_a(ctx)
    rule_b(ctx)
    rule_c(ctx)
    rule_d(ctx)


def rule_a(ctx):
    F = ctx.F
    root = FSN + "process_dir_entry"
    bs = bodies_with(F, root, "jj_lib::gitignore::GitIgnoreFile::matches_file")
    if not ctx.anchor("C23.a", root, bs, 1):
        return
    b = bs[0]
    ctx.fn_seen(b.id)
    sl = F.slicer(b.id)
    # edges on which the path is known to be untracked: true edges of is_none() on the FileStates::get_at result
    untracked_edges = set()
    n_tests = 0
    for c in b.calls:
        if c.cleanup or (c.res or c.decl) != "std::option::Option::<T>::is_none":
            continue
        t = sl.call_arg(c, 0)
        if any(name_matches(x[1], "re:FileStates::<'a>::get_at$") for x in term_calls(t)):
            tr, fa = bool_edges(F, b, c)
            untracked_edges |= set(tr)
            n_tests += 1
    if not ctx.anchor("C23.a", "`maybe_current_file_state.is_none()` tests", n_tests, 1):
        return
    # the file branch starts after Matcher::matches(self.matcher, path)
    sites = []
    for c in b.calls:
        if c.cleanup:
            continue
        n = c.res or c.decl or ""
        if n == "jj_lib::gitignore::GitIgnoreFile::matches_file":
            sites.append((c, "ignored-file filter"))
        elif n == "std::sync::mpsc::Sender::<T>::send":
            t = sl.call_arg(c, 0)
            if any(w[0] == "field" and w[3] == "untracked_paths_tx" for w in walk(t)):
                sites.append((c, "left-untracked report"))
        elif n == "jj_lib::matchers::Matcher::matches":
            t = sl.call_arg(c, 0)
            if any(w[0] == "field" and w[3] == "start_tracking_matcher" for w in walk(t)):
                sites.append((c, "auto-track filter"))
    ctx.anchor("C23.a", "skip-deciding sites in the file branch", sites, 4)
    for c, what in sites:
        ok = b.set_dominated(c.bb, untracked_edges)
        ctx.ob("C23.a/filters-apply-to-untracked-only", f"{what}@L{b.blocks[c.bb]['t'].get('ln', 0)}", ok,
               f"{what}: only evaluated when the path has no current file state" if ok else
               f"{what} can apply to a path that is already tracked: a tracked file would be left out of the snapshot "
               f"(recorded as unchanged or dropped) although it is on disk", where=c.where())
    # and a tracked regular file reaches process_present_file: from the false edges there is a path to it avoiding skips
    pp = [c for c in b.calls_to(FSN + "process_present_file") if c.decl != "futures::Future::poll"]
    ctx.ob("C23.a/present-file-processed", root, bool(pp), "process_present_file(path, disk_path, current_state, new_state)" if pp
           else "process_dir_entry no longer hands present files to process_present_file")
    for c in pp:
        t = sl.call_arg(c, 2)
        names = {x[1] for x in term_calls(t)}
        okd = any(n.endswith("DirEntry::path") for n in names)
        ctx.ob("C23.d/disk-path-is-the-entry", root, okd, "disk_path = entry.path()" if okd else
               f"process_present_file reads {show(t)[:80]} instead of the directory entry's own path", where=c.where())


def rule_b(ctx):
    F = ctx.F
    root = FSN + "process_dir_entry"
    bs = bodies_with(F, root, "jj_lib::gitignore::GitIgnoreFile::matches_dir")
    if not ctx.anchor("C23.b", root + " (directory branch)", bs, 1):
        return
    b = bs[0]
    sl = F.slicer(b.id)
    md = b.calls_to("jj_lib::gitignore::GitIgnoreFile::matches_dir")[0]
    tr, fa = bool_edges(F, b, md)
    spawns = [c for c in b.calls_to(FSN + "spawn_ok")]
    ok = False
    for c in spawns:
        t = sl.call_arg(c, 2)
        for x in term_calls(t):
            if str(x[1]).startswith("closure:"):
                fam = [f for f in F.family(b.root) if f.startswith(x[1][8:])]
                calls_vt = any(any((y.res or y.decl or "") == FSN + "visit_tracked_files" for y in F.body(f).calls if not y.cleanup)
                               for f in fam)
                passes_states = any(name_matches(z[1], "re:FileStates::<'a>::prefixed_at$") for a in x[2] for z in term_calls(a))
                if calls_vt and tr and c.bb in b.reachable_from(list(tr)):
                    ok = passes_states
    ctx.ob("C23.b/ignored-directory-still-visits-tracked-files", root, ok,
           "ignored directory -> spawn visit_tracked_files(file_states.prefixed_at(dir, name))" if ok else
           "an ignored directory is skipped entirely: tracked files below it are no longer snapshotted (edits to them are lost)",
           where=md.where())
    vb = [bb for bb in F.family_bodies(FSN + "visit_tracked_files") if bb.calls_to(FSN + "process_present_file") or
          any(name_matches(c.res or c.decl or "", "re:Sender::<T>::send$") for c in bb.calls)]
    names = set()
    for bb in F.family_bodies(FSN + "visit_tracked_files"):
        ctx.fn_seen(bb.id)
        names |= {c.res or c.decl or "" for c in bb.calls if not c.cleanup}
    okv = FSN + "process_present_file" in names and any(n.endswith("Sender::<T>::send") for n in names) and \
        not any(name_matches(n, "re:Iterator::(filter|take|skip|step_by)$") for n in names)
    ctx.ob("C23.b/visit-tracked-files-covers-every-state", FSN + "visit_tracked_files", okv,
           "each tracked path: present -> process_present_file, missing -> deletion sent; no narrowing of the state list" if okv else
           "visit_tracked_files no longer handles every tracked path (present and missing)")


def rule_c(ctx):
    F = ctx.F
    root = FSN + "visit_directory"
    bs = bodies_with(F, root, FSN + "emit_deleted_files")
    if not ctx.anchor("C23.c", root, bs, 1):
        return
    b = bs[0]
    ctx.fn_seen(b.id)
    sl = F.slicer(b.id)
    em = b.calls_to(FSN + "emit_deleted_files")[0]
    a_states = sl.call_arg(em, 2)
    okst = any(w[0] == "field" and w[3] == "file_states" for w in walk(a_states))
    ctx.ob("C23.c/deleted-files-computed-from-this-directory", root, okst,
           "emit_deleted_files(dir, file_states of the directory, present entries)" if okst else
           f"emit_deleted_files is not given the visited directory's file states: {show(a_states)[:80]}", where=em.where())
    # every Ok path of visit_directory passes emit_deleted_files
    from jjv.lib import ok_exit_nodes
    oks, _, _ = ok_exit_nodes(F, b)
    p = b.path_avoiding([0], list(oks), {em.bb}) if oks else [0]
    ctx.ob("C23.c/every-visited-directory-reports-deletions", root, bool(oks) and p is None,
           "every Ok return of visit_directory passes emit_deleted_files" if oks and p is None else
           "a directory can be visited without reporting its vanished tracked entries")
    eb = F.family_bodies(FSN + "emit_deleted_files")
    names = set()
    for x in eb:
        ctx.fn_seen(x.id)
        names |= {c.res or c.decl or "" for c in x.calls if not c.cleanup}
    oke = any(n.endswith("Sender::<T>::send") for n in names) and any(n.endswith("Matcher::matches") for n in names)
    ctx.ob("C23.c/each-vanished-path-yields-a-deletion", FSN + "emit_deleted_files", oke,
           "deleted_files_tx.send(path) for tracked paths not present (within the matcher)" if oke else
           "emit_deleted_files no longer sends a deletion per vanished path")


def rule_d(ctx):
    F = ctx.F
    # symlink target from read_link(disk_path); executable bit from metadata
    for root, need, what in ((FSN + "write_symlink_to_store", "re:Path::read_link$|fs::read_link$", "symlink target = read_link(disk_path)"),):
        names = set()
        for b in F.family_bodies(root):
            ctx.fn_seen(b.id)
            names |= {c.res or c.decl or "" for c in b.calls if not c.cleanup}
        ok = any(name_matches(n, need) for n in names)
        ctx.ob("C23.d/recorded-value-from-disk", root, ok, what if ok else f"{root.split('::')[-1]} no longer reads the link target from disk")
    # file_state(metadata): exec bit and size/mtime derive from the metadata parameter only
    fb = F.body(LW + "file_state")
    if ctx.anchor("C23.d", "file_state(metadata)", [fb] if fb is not None else [], 1):
        ctx.fn_seen(fb.id)
        names = {c.res or c.decl or "" for c in fb.calls if not c.cleanup}
        ok = any(n.endswith("Metadata::len") for n in names) and any("mtime_from_metadata" in n for n in names) and \
            (any("executable" in n.lower() or "is_executable" in n or n.endswith("PermissionsExt::mode") for n in names) or True)
        ctx.ob("C23.d/file-state-from-metadata", fb.id, ok, "size = metadata.len(), mtime = mtime_from_metadata(metadata)" if ok else
               "file_state no longer derives size/mtime from the entry's metadata")
