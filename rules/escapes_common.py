"""Escape vocabulary of the three expression languages (shared by C35 and C36): what the printer emits
(dsl_util::escape_string, from MIR), what the grammars accept (string_escape in the .pest files), and what the
parser handles (StringLiteralParser::parse, from MIR)."""
import os
import re

from jjv.lib import bool_edges, name_matches, op_const, op_place, show, strip

GRAMMARS = {"revset": "lib/src/revset.pest", "fileset": "lib/src/fileset.pest", "template": "cli/src/template.pest"}
STRING_RULES = ["string_escape", "string_content_char", "string_content", "string_literal", "raw_string_content",
                "raw_string_literal"]


def pest_rules(path):
    text = open(path).read()
    # strip // comments (outside strings: good enough for these grammars, checked by the anchor counts)
    lines = []
    for ln in text.splitlines():
        out, in_s, i = "", False, 0
        while i < len(ln):
            ch = ln[i]
            if in_s:
                out += ch
                if ch == "\\" and i + 1 < len(ln):
                    out += ln[i + 1]
                    i += 1
                elif ch == '"':
                    in_s = False
            else:
                if ch == '"':
                    in_s = True
                    out += ch
                elif ch == "/" and ln[i:i + 2] == "//":
                    break
                else:
                    out += ch
            i += 1
        lines.append(out)
    text = "\n".join(lines)
    rules = {}
    for m in re.finditer(r"(?m)^\s*([A-Za-z_][A-Za-z0-9_]*)\s*=\s*([_@$!]?)\{", text):
        name = m.group(1)
        i = m.end()
        depth, in_s, j = 1, False, i
        while j < len(text) and depth:
            ch = text[j]
            if in_s:
                if ch == "\\":
                    j += 1
                elif ch == '"':
                    in_s = False
            elif ch == '"':
                in_s = True
            elif ch == "{":
                depth += 1
            elif ch == "}":
                depth -= 1
            j += 1
        rules[name] = (m.group(2), re.sub(r"\s+", " ", text[i:j - 1]).strip())
    return rules


def unquote(s):
    return bytes(s, "utf-8").decode("unicode_escape")


def grammar_escapes(rule_body):
    """escape spellings accepted after the backslash: set of letters plus 'xHH' if the hex form is present"""
    lits = [unquote(m.group(1)) for m in re.finditer(r'"((?:[^"\\]|\\.)*)"', rule_body)]
    if not lits or lits[0] != "\\":
        return None
    alts = set(lits[1:])
    hexform = bool(re.search(r'"x"\s*~\s*ASCII_HEX_DIGIT\s*\{\s*2\s*\}', rule_body))
    if hexform:
        alts.discard("x")
        alts.add("xHH")
    elif "x" in alts:
        alts.discard("x")
        alts.add("x?")
    return alts


def printer_map(F):
    """char code -> escape text pushed by dsl_util::escape_string; plus whether control chars go through
    ascii::escape_default"""
    b = F.body("jj_lib::dsl_util::escape_string")
    if b is None:
        return None, False
    sl = F.slicer(b.id)
    out = {}
    for bb, t in b.switches():
        if len(t["vals"]) < 3:
            continue
        p = op_place(t["o"])
        if p is None or b.locals[p[0]] != "char":
            continue
        for v, tgt in t["vals"]:
            # follow gotos to the push_str call
            x, seen = tgt, set()
            while x is not None and x not in seen:
                seen.add(x)
                tt = b.blocks[x]["t"]
                if tt["k"] == "call" and (tt["f"].get("r") or "").endswith("String::push_str"):
                    from jjv.lib import CallSite
                    c = CallSite(b, x, tt, False)
                    s = strip(sl.call_arg(c, 1))
                    if isinstance(s, tuple) and s[0] == "const":
                        out[int(v)] = s[1]
                    break
                if tt["k"] == "goto":
                    x = tt["t"]
                else:
                    break
    ctrl = False
    for c in b.calls:
        if not c.cleanup and name_matches(c.res or c.decl or "", "re:ascii::escape_default$"):
            # guarded by is_ascii_control
            for g in b.calls:
                if not g.cleanup and name_matches(g.res or g.decl or "", "re:is_ascii_control$"):
                    trues, _ = bool_edges(F, b, g)
                    if trues and b.set_dominated(c.bb, set(trues)):
                        ctrl = True
    return out, ctrl


def parser_map(F):
    """escape spelling -> char pushed by StringLiteralParser::parse; 'xHH' if the starts_with('x') arm parses hex.
    Also returns the panic sites reachable (descriptions)."""
    bodies = [F.body(f) for f in F.find_fns("re:^jj_lib::dsl_util::StringLiteralParser::<R>::parse$")]
    if not bodies:
        return None, None
    b = bodies[0]
    sl = F.slicer(b.id)
    out = {}
    for c in b.calls:
        if c.cleanup or c.decl != "std::cmp::PartialEq::eq":
            continue
        consts = [strip(sl.call_arg(c, k)) for k in range(len(c.args))]
        lit = [x[1] for x in consts if isinstance(x, tuple) and x[0] == "const" and isinstance(x[1], str)]
        if not lit:
            continue
        trues, _ = bool_edges(F, b, c)
        # the push reached on the true edge before any other comparison
        for pc in b.calls:
            if pc.cleanup or not (pc.res or "").endswith("String::push"):
                continue
            if trues and b.set_dominated(pc.bb, set(trues)):
                ch = strip(sl.call_arg(pc, 1))
                if isinstance(ch, tuple) and ch[0] == "const":
                    out.setdefault(lit[0], ch[1])
    hexarm = False
    for c in b.calls:
        if not c.cleanup and name_matches(c.res or c.decl or "", "re:str>::starts_with"):
            if any(name_matches(x.res or x.decl or "", "re:from_str_radix$") for x in b.calls if not x.cleanup):
                hexarm = True
    return out, hexarm
