"""C08  Rebasing carries a commit's changes and nothing else (roles of the three-way tree merge, shortcut guard).

a. CommitRewriter::rebase_with_empty_behavior computes the new tree as merge([new base, old base, old tree]) -- in
   that role order (add, remove, add) -- with new base = merge_commit_trees(all new parents), old base =
   merge_commit_trees(all of the old commit's parents), old tree = the old commit's tree
b. the skip-merge shortcut (reuse the old tree) is taken only on the true edge of a comparison of the tree ids of ALL
   new parents with those of ALL old parents (no narrowing of either list)
c. the rewritten commit gets exactly self.new_parents and the tree computed in a/b
d. merge_commit_trees merges every given commit (the tree of each, no narrowing)
"""
from jjv.lib import (alts, bool_edges, name_matches, norm, show, strip, term_calls, term_leaves, walk)

CR = "jj_lib::rewrite::CommitRewriter::<'repo>::"
ROOT = CR + "rebase_with_empty_behavior"
MCT = "jj_lib::rewrite::merge_commit_trees"
NARROW = ("re:^std::iter::Iterator::(filter|filter_map|take|skip|take_while|skip_while|step_by|find|find_map|nth|last|"
          "next|min|max|map_while|scan|peekable)$",
          "re:^itertools::Itertools::(at_most_one|exactly_one|filter_ok|take_while_ref)$",   # not dedup/unique: harmless for a merge
          "re:^core::slice::<impl \\[T\\]>::(first|last|split_first|split_last|get|split_at|chunks|windows)$",
          "re:^std::vec::Vec::<.*>::(first|last|pop|truncate|retain|dedup|drain|split_off|swap_remove|remove)$",
          "re:ops::Index<.*>.*::index$|^std::ops::Index::index$")


def resolve_joins(t, depth=0):
    """look through futures::try_join!/join!: `poll_fn(closure(fut0, fut1, ..)).await?.k`  ->  fut_k"""
    if depth > 12:
        return t
    t = strip(t)
    while isinstance(t, tuple) and t[0] == "field" and t[2] == "(tuple)":
        base = strip(t[1])
        if isinstance(base, tuple) and base[0] == "call" and name_matches(base[1], "re:future::poll_fn$|poll_fn$") and base[2]:
            clo = strip(base[2][0])
            if isinstance(clo, tuple) and clo[0] == "call" and str(clo[1]).startswith("closure:"):
                k = int(t[3])
                if k < len(clo[2]):
                    inner = strip(clo[2][k], extra=("re:Pin::<.*>::new_unchecked$", "re:future::maybe_done$", "re:maybe_done$",
                                                    "re:IntoFuture::into_future$"))
                    t = strip(inner)
                    continue
        break
    return t


_F = None


def sources(t):
    """leaf descriptions of where a value comes from, looking through joins (and into mapping closures' bodies)"""
    out = set()
    seen = set()
    work = [t]
    n = 0
    while work and n < 4000:
        x = resolve_joins(work.pop())
        n += 1
        if not isinstance(x, tuple) or id(x) in seen:
            continue
        seen.add(id(x))
        if x[0] == "call":
            out.add(("call", x[1]))
            work.extend(x[2])
            if str(x[1]).startswith("closure:") and _F is not None:
                cb = _F.body(x[1][8:])
                if cb is not None:
                    for c in cb.calls:
                        if not c.cleanup:
                            out.add(("call", c.res or c.decl or "?"))
        elif x[0] == "field":
            if x[2] != "(tuple)":
                out.add(("field", x[3]))
            work.append(x[1])
        elif x[0] == "param":
            out.add(("param", x[2]))
        else:
            from jjv.lib import children
            work.extend(children(x))
    return out


def has_call(src, pat):
    return any(k == "call" and name_matches(n, pat) for k, n in src)


def run(ctx):
    global _F
    F = _F = ctx.F
    ctx.explanation = (
        "Role-provenance and guard rules on the MIR of CommitRewriter::rebase_with_empty_behavior (the only place a "
        "rebased tree is computed): the three terms of the tree merge are, in order, merge_commit_trees(new parents "
        "loaded from self.new_parents), merge_commit_trees(old_commit.parents()), old_commit.tree(); the old tree is "
        "reused without merging only on the true edge of `new_parent_trees == old_parent_trees`, both lists being "
        "map(tree_ids) over ALL parents of each side; the builder gets self.new_parents and that tree; "
        "merge_commit_trees merges the tree of every commit it is given. try_join!/join! wrappers are looked through.")
    ctx.clauses = ["merge roles (new base + (old tree - old base))", "shortcut only when every parent tree is unchanged",
                   "new commit has the requested parents and the computed tree", "base tree covers all parents"]
    ctx.not_decided = ["the trees' contents after the merge (C07)", "descendants (C11)", "EmptyBehavior decisions"]
    bs = [b for b in F.family_bodies(ROOT) if b.calls_to("re:Merge::<T>::from_vec$")]
    if not ctx.anchor("C08", "rebase_with_empty_behavior body building the merge", bs, 1):
        return
    b = bs[0]
    ctx.fn_seen(b.id)
    sl = F.slicer(b.id)
    fv = b.calls_to("re:Merge::<T>::from_vec$")[0]
    vec = sl.call_arg(fv, 0)
    # elements of the vec![..] literal: the array aggregate inside the boxed slice
    items = []
    for w in walk(vec):
        if w[0] == "call" and w[1] == "[array]":
            items = list(w[2])
            break
    if not ctx.anchor("C08.a", "elements of the merge vector", items, 3):
        return
    ctx.ob("C08.a/three-way", ROOT, len(items) == 3, f"{len(items)} terms")
    roles = []
    for it in items:
        it = strip(it)
        tree = it
        # (tree, label) tuple
        if isinstance(it, tuple) and it[0] == "tuple" and it[1]:
            tree = it[1][0]
        src = sources(tree)
        if has_call(src, MCT) and has_call(src, "re:Store::get_commit_async$") and ("field", "new_parents") in src and \
                not has_call(src, "jj_lib::commit::Commit::parents") and ("field", "old_commit") not in src:
            roles.append("new-base")
        elif has_call(src, MCT) and has_call(src, "jj_lib::commit::Commit::parents") and ("field", "new_parents") not in src:
            roles.append("old-base")
        elif has_call(src, "jj_lib::commit::Commit::tree") and not has_call(src, MCT):
            roles.append("old-tree")
        else:
            roles.append("?")
    for i, it in enumerate(items[:2]):
        tree = strip(it)
        if isinstance(tree, tuple) and tree[0] == "tuple" and tree[1]:
            tree = tree[1][0]
        nar = sorted({n.split("::")[-1] for k, n in sources(tree) if k == "call" and name_matches(n, NARROW)})
        ctx.ob("C08.a/base-covers-all-parents", f"term{i}", not nar,
               "merge_commit_trees over the whole parent list" if not nar else
               f"the {'new' if i == 0 else 'old'} base tree is computed from a narrowed parent list ({nar})")
    ok = roles == ["new-base", "old-base", "old-tree"]
    ctx.ob("C08.a/merge-roles", ROOT, ok, "merge([new base, old base, old tree]) = new base + (old tree - old base)" if ok else
           f"the three-way merge terms are {roles}: a rebased commit would not carry exactly (old tree - old base) onto the new base",
           where=fv.where())
    # the old tree and the old base both belong to self.old_commit
    for i, it in enumerate(items[1:], 1):
        tree = strip(it)
        if isinstance(tree, tuple) and tree[0] == "tuple" and tree[1]:
            tree = tree[1][0]
        src = sources(tree)
        ctx.ob("C08.a/old-side-is-the-rebased-commit", f"term{i}", ("field", "old_commit") in src,
               "derives from self.old_commit" if ("field", "old_commit") in src else "does not derive from self.old_commit")
    # b. shortcut guard
    eqs = []
    for c in b.calls:
        if c.cleanup or c.decl != "std::cmp::PartialEq::eq":
            continue
        s0, s1 = sources(sl.call_arg(c, 0)), sources(sl.call_arg(c, 1))
        both = s0 | s1
        if has_call(both, "jj_lib::commit::Commit::tree_ids") and has_call(both, "re:collect_vec$|::collect$"):
            eqs.append((c, s0, s1))
    if ctx.anchor("C08.b", "comparison of new and old parent trees", eqs, 1):
        c, s0, s1 = eqs[0]
        new_side = s0 if ("field", "new_parents") in s0 else s1
        old_side = s1 if new_side is s0 else s0
        okn = ("field", "new_parents") in new_side and has_call(new_side, "re:Store::get_commit_async$")
        oko = has_call(old_side, "jj_lib::commit::Commit::parents") and ("field", "new_parents") not in old_side
        narrow = sorted({n.split("::")[-1] for k, n in (s0 | s1) if k == "call" and name_matches(n, NARROW)})
        ctx.ob("C08.b/guard-compares-all-parent-trees", ROOT, okn and oko and not narrow,
               "tree ids of all new parents == tree ids of all old parents" if okn and oko and not narrow else
               f"the shortcut guard does not compare every parent's tree on both sides (narrowing: {narrow}; new side ok={okn}, "
               f"old side ok={oko})", where=c.where())
        tr, fa = bool_edges(F, b, c)
        # the old tree is passed to set_tree un-merged only via the true edge
        st = b.calls_to("re:CommitBuilder::<'_>::set_tree$|CommitBuilder.*::set_tree$")
        if ctx.anchor("C08.c", "set_tree call", st, 1):
            targ = sl.call_arg(st[0], 1)
            al = [a for a in alts_deep(targ)]
            kinds = set()
            for a in al:
                src = sources(a)
                if has_call(src, "re:MergedTree::merge$"):
                    kinds.add("merged")
                elif has_call(src, "jj_lib::commit::Commit::tree") and ("field", "old_commit") in src:
                    kinds.add("old-tree")
                else:
                    kinds.add("other:" + show(a)[:60])
            ctx.ob("C08.c/tree-is-merge-or-guarded-old-tree", ROOT, kinds <= {"merged", "old-tree"} and "merged" in kinds,
                   f"set_tree({sorted(kinds)})" if kinds <= {"merged", "old-tree"} else
                   f"the rebased commit's tree comes from {sorted(kinds)}")
            # un-merged reuse only behind the guard: from entry to the block that builds the (true, old tree) pair
            mg = b.calls_to("re:MergedTree::merge$")
            mg = [x for x in mg if x.decl != "futures::Future::poll"]
            if mg and tr:
                # every path to set_tree avoids the merge only through the guard's true edge
                p = b.path_avoiding([0], [st[0].bb], set(tr) | {x.bb for x in mg})
                ctx.ob("C08.b/shortcut-only-behind-guard", ROOT, p is None,
                       "set_tree is reached either through MergedTree::merge or through the parents-unchanged edge" if p is None
                       else f"the merge can be skipped without the parents-unchanged test: {b.show_path(p)[-4:]}")
            sp = b.calls_to("re:CommitBuilder.*::set_parents$")
            okp = bool(sp) and ("field", "new_parents") in sources(sl.call_arg(sp[0], 1)) and \
                ("field", "old_commit") in sources(sl.call_arg(sp[0], 0))
            ctx.ob("C08.c/parents-are-the-requested-ones", ROOT, okp, "rewrite_commit(old_commit).set_parents(self.new_parents)"
                   if okp else "the rewritten commit does not get self.new_parents")
    rule_d(ctx)


def alts_deep(t):
    out = []
    t = strip(t)
    if isinstance(t, tuple) and t[0] == "field" and t[2] == "(tuple)":
        base = strip(t[1])
        if isinstance(base, tuple) and base[0] == "alt":
            for a in base[1]:
                a = strip(a)
                if isinstance(a, tuple) and a[0] == "tuple" and len(a[1]) > int(t[3]):
                    out.extend(alts_deep(a[1][int(t[3])]))
                else:
                    out.append(("field", a, t[2], t[3]))
            return out
    if isinstance(t, tuple) and t[0] == "alt":
        for a in t[1]:
            out.extend(alts_deep(a))
        return out
    return [t]


def rule_d(ctx):
    F = ctx.F
    # merge_commit_trees -> merge_commit_trees_no_resolve_without_repo: every commit's tree enters the merge
    roots = [MCT, "jj_lib::rewrite::merge_commit_trees_no_resolve", "jj_lib::rewrite::merge_commit_trees_no_resolve_without_repo"]
    n = 0
    for r in roots:
        for b in F.family_bodies(r):
            calls = [c for c in b.calls if not c.cleanup]
            narrow = [c for c in calls if (name_matches(c.decl or "", NARROW[:2]) or name_matches(c.res or "", NARROW[:4])) and
                      not name_matches(c.decl or c.res or "", "re:::next$")]
            if not calls:
                continue
            n += 1
            ctx.fn_seen(b.id)
            ctx.ob("C08.d/base-tree-covers-all-commits", b.id, not narrow,
                   "no narrowing adapter over the commit list" if not narrow else
                   f"{b.id.split('::')[-1]} narrows the list of commits whose trees are merged "
                   f"({sorted({(c.decl or c.res).split('::')[-1] for c in narrow})})", where=narrow[0].where() if narrow else None)
    ctx.anchor("C08.d", "merge_commit_trees bodies", n, 3)
    names = set()
    for r in roots:
        for b in F.family_bodies(r):
            names |= {c.res or c.decl or "" for c in b.calls if not c.cleanup}
    need = {"merge_commit_trees_no_resolve": "jj_lib::rewrite::merge_commit_trees_no_resolve",
            "merge_commit_trees_no_resolve_without_repo": "jj_lib::rewrite::merge_commit_trees_no_resolve_without_repo",
            "find_recursive_merge_commits": "jj_lib::rewrite::find_recursive_merge_commits",
            "MergedTree::resolve": "jj_lib::merged_tree::MergedTree::resolve",
            "MergedTree::merge_no_resolve": "jj_lib::merged_tree::MergedTree::merge_no_resolve"}
    missing = sorted(k for k, v in need.items() if v not in names)
    ctx.ob("C08.d/base-tree-chain", MCT, not missing,
           "merge_commit_trees = resolve(merge_no_resolve(trees of find_recursive_merge_commits(all ids)))" if not missing else
           f"the base-tree computation no longer goes through {missing}")
