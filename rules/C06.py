"""C06  An unedited conflicted file is snapshotted as the same conflict (arity-preservation plumbing).

a. when the parsed hunks equal the hunks the merge would produce, update_from_content returns the ORIGINAL
   (unsimplified) file ids
b. old and new hunks are both computed at the simplified arity; when the arities differ the result is expanded
   back with update_from_simplified on the original ids
c. the marker length used for parsing is the one chosen at materialization time
"""
from jjv.lib import (bodies_with, bool_edges, name_matches, norm, ok_exit_nodes, op_place, place_has_field, show, strip,
                     term_calls, term_fields, term_leaves, walk)

C = "jj_lib::conflicts::"
LW = "jj_lib::local_working_copy::"
UFC = C + "update_from_content"
SIMPLIFY = "re:^jj_lib::merge::Merge::<T>::simplify$"


def run(ctx):
    ctx.explanation = (
        "Provenance rules on conflicts::update_from_content: an Ok exit returning clone(param file_ids) exists, is not "
        "preceded by any Store::write_file, and lies on the true edge of the `unchanged` comparison of old and new "
        "hunks; extract_as_single_hunk and parse_conflict both take the simplified ids / their num_sides(); "
        "update_from_simplified is applied to the original ids on the arity-differs edge; in TreeState::update the "
        "marker length recorded in the file state and the one given to the materializer come from the same "
        "choose_materialized_conflict_marker_len call, and write_path_to_store passes the recorded length on.")
    ctx.clauses = ["unchanged => original unsimplified ids", "consistent simplified arity for old/new hunks",
                   "expansion back to the original arity", "marker length plumbing"]
    ctx.not_decided = ["parse∘materialize identity on contents (C05's undecided part)", "edits in resolved regions are "
                       "applied to every side (value-level)"]
    F = ctx.F
    bs = bodies_with(F, UFC, C + "parse_conflict")
    if not ctx.anchor("C06", "update_from_content body", bs, 1):
        return
    b = bs[0]
    ctx.fn_seen(b.id)
    sl = F.slicer(b.id)
    okn, errn, other = ok_exit_nodes(F, b)
    # a. exits that return clone(file_ids)
    early = []
    for x in okn:
        for s in b.blocks[x]["s"]:
            rv = s["r"]
            if rv["k"] == "agg" and rv.get("adt") == "std::result::Result" and rv.get("v") == "Ok":
                t = sl.operand(rv["o"][0], at=x)
                n = strip(t)
                if isinstance(n, tuple) and n[0] == "param" and n[2] == "file_ids":
                    early.append(x)
    ctx.ob("C06.a/unchanged-returns-original-ids", UFC, bool(early),
           "an Ok exit returns file_ids.clone() (the unsimplified input)" if early else
           "no exit returns the original file ids: an unedited conflict is re-recorded in simplified form")
    writes = [c.bb for c in b.calls if not c.cleanup and name_matches(c.res or c.decl or "", "re:Store::write_file$")]
    for x in early:
        ok = b.path_avoiding([0], [x], set(writes)) is not None and all(x not in b.after(w) for w in writes)
        ctx.ob("C06.a/early-return-before-any-write", UFC, ok, "reached without writing any file" if ok else
               "the unchanged exit is only reachable after new file contents were written")
        # control: true edge of a switch whose operand derives from comparisons of old/new hunks
        guard = False
        for bb, t in b.switches():
            p = op_place(t["o"])
            if p is None or b.locals[p[0]] != "bool":
                continue
            term = sl.place(p, at=bb)
            names = {c_[1] for c_ in term_calls(term)}
            if any(n.endswith("::eq") for n in names) and any("parse_conflict" in n for n in names) and \
                    any("merge_hunks" in n for n in names):
                e = b.edge_node(bb, "else")
                if e is not None and b.set_dominated(x, {e}):
                    guard = True
        ctx.ob("C06.a/early-return-guarded-by-hunk-equality", UFC, guard,
               "taken only when old hunks (merge_hunks) == new hunks (parse_conflict)" if guard else
               "the original ids are returned without comparing the parsed hunks with the merge result")
    # b. arity
    for callee, idx, what in ((C + "extract_as_single_hunk", 0, "old hunks"), (C + "parse_conflict", 1, "new hunks")):
        for c in b.calls:
            if c.cleanup or (c.res or "") != callee:
                continue
            t = sl.call_arg(c, idx)
            ok = any(name_matches(x[1], SIMPLIFY) for x in term_calls(t))
            ctx.ob("C06.b/simplified-arity", f"{UFC}|{what}", ok, f"{what} use the simplified conflict: {show(t)[:90]}" if ok
                   else f"{what} are not computed at the simplified arity: {show(t)[:120]}", where=c.where())
    ufs = [c for c in b.calls if not c.cleanup and name_matches(c.res or c.decl or "", "re:Merge.*::update_from_simplified$")]
    ctx.anchor("C06.b", "update_from_simplified call", ufs, 1)
    for c in ufs:
        recv = strip(sl.call_arg(c, 0))
        ok_recv = isinstance(recv, tuple) and recv[0] == "param" and recv[2] == "file_ids"
        guard = False
        for bb, t in b.switches():
            p = op_place(t["o"])
            if p is None:
                continue
            term = strip(sl.place(p, at=bb))
            if isinstance(term, tuple) and term[0] == "bin" and term[1] in ("Ne", "Eq"):
                e = b.edge_node(bb, "else") if term[1] == "Ne" else b.edge_node(bb, 0)
                if e is not None and b.set_dominated(c.bb, {e}) and any(l[0] == "param" and l[2] == "file_ids" for l in term_leaves(term)):
                    guard = True
        ctx.ob("C06.b/expanded-to-original-arity", UFC, ok_recv and guard,
               "file_ids.clone().update_from_simplified(..) on the arity-differs edge" if ok_recv and guard else
               "the result is not expanded back onto the original (unsimplified) ids when the arity differs", where=c.where())
    rule_c(ctx)


def rule_c(ctx):
    F = ctx.F
    CH = C + "choose_materialized_conflict_marker_len"
    bs = bodies_with(F, LW + "TreeState::update", CH)
    ctx.anchor("C06.c", "choose_materialized_conflict_marker_len in TreeState::update", bs, 1)
    for b in bs:
        ctx.fn_seen(b.id)
        sl = F.slicer(b.id)
        srcs = {"state": None, "options": None}
        for i, blk in enumerate(b.blocks):
            for s in blk["s"]:
                rv = s["r"]
                if rv["k"] == "agg" and (rv.get("adt") or "").endswith("MaterializedConflictData"):
                    t = sl.operand(dict(zip(rv["fields"], rv["o"]))["conflict_marker_len"], at=i)
                    srcs["state"] = {x[3][1] for x in term_calls(t) if x[1] == CH and x[3]}
                if rv["k"] == "agg" and (rv.get("adt") or "").endswith("ConflictMaterializeOptions"):
                    t = sl.operand(dict(zip(rv["fields"], rv["o"]))["marker_len"], at=i)
                    srcs["options"] = {x[3][1] for x in term_calls(t) if x[1] == CH and x[3]}
        ok = bool(srcs["state"]) and srcs["state"] == srcs["options"]
        ctx.ob("C06.c/written-len-is-recorded-len", LW + "TreeState::update", ok,
               "file state and materialize options take the length from the same choose_materialized_conflict_marker_len call"
               if ok else f"marker length recorded in the file state and the one written differ in origin: {srcs}")
    root = LW + "FileSnapshotter::<'_>::write_path_to_store"
    for b in bodies_with(F, root, UFC):
        sl = F.slicer(b.id)
        for c in b.calls_to(UFC):
            if c.decl == "futures::Future::poll":
                continue
            t = sl.call_arg(c, 4)
            names = {l[2] for l in term_leaves(t) if l[0] == "param"} | \
                    {w[3] for w in walk(t) if w[0] == "field"}
            ok = "materialized_conflict_data" in names or "conflict_marker_len" in names
            ctx.ob("C06.c/parse-len-from-file-state", root, ok, f"marker length = {show(t)[:120]}" if ok else
                   f"update_from_content is not given the length recorded at materialization: {show(t)[:120]}", where=c.where())
    # get_updated_tree_value passes the old state's data on
    root = LW + "FileSnapshotter::<'_>::get_updated_tree_value"
    for b in F.family_bodies(root):
        for c in b.calls:
            if c.cleanup or not name_matches(c.res or c.decl or "", "re:write_path_to_store$"):
                continue
            sl = F.slicer(b.id)
            t = sl.call_arg(c, 5)
            ok = any(w[0] == "field" and w[3] == "materialized_conflict_data" for w in walk(t)) or \
                any(x[1].startswith("closure:") for x in term_calls(t))
            ctx.ob("C06.c/state-data-passed-to-store-writer", root, ok, "materialized_conflict_data of the recorded state is "
                   "passed to write_path_to_store" if ok else "the recorded conflict data is dropped before parsing", where=c.where())
