"""Token-shape analysis of a .pest grammar: which (non-silent) rules can appear as children / as the first child of a
parse-tree node.  Used by C36.d to compare the grammar with the `match pair.as_rule()` dispatches of the parsers."""
import re

from rules.escapes_common import pest_rules

BUILTIN_NO_TOKEN = {"SOI", "ANY", "NEWLINE", "PEEK", "PEEK_ALL", "POP", "POP_ALL", "DROP"}


class Node:
    __slots__ = ("k", "a", "v")

    def __init__(self, k, a=(), v=None):
        self.k, self.a, self.v = k, list(a), v


def tokenize(body):
    toks = []
    i = 0
    while i < len(body):
        ch = body[i]
        if ch.isspace():
            i += 1
        elif ch == '"':
            j = i + 1
            while j < len(body) and body[j] != '"':
                j += 2 if body[j] == "\\" else 1
            toks.append(("str", body[i:j + 1]))
            i = j + 1
        elif ch == "'":
            j = i + 1
            while j < len(body) and body[j] != "'":
                j += 2 if body[j] == "\\" else 1
            toks.append(("chr", body[i:j + 1]))
            i = j + 1
        elif body.startswith("..", i):
            toks.append(("..", ".."))
            i += 2
        elif ch in "|~*+?!&()^":
            toks.append((ch, ch))
            i += 1
        elif ch == "{":
            j = body.index("}", i)
            toks.append(("rep", body[i:j + 1]))
            i = j + 1
        elif ch == "#":  # tag: #name =
            m = re.match(r"#\w+\s*=", body[i:])
            i += m.end() if m else 1
        elif ch.isalpha() or ch == "_":
            m = re.match(r"[A-Za-z_][A-Za-z0-9_]*", body[i:])
            toks.append(("id", m.group(0)))
            i += m.end()
        else:
            raise ValueError(f"pest tokenizer: unexpected {ch!r} in {body[:60]!r}")
    return toks


class P:
    def __init__(self, toks):
        self.t, self.i = toks, 0

    def peek(self):
        return self.t[self.i][0] if self.i < len(self.t) else None

    def take(self):
        x = self.t[self.i]
        self.i += 1
        return x

    def choice(self):
        if self.peek() == "|":
            self.take()
        alts = [self.seq()]
        while self.peek() == "|":
            self.take()
            alts.append(self.seq())
        return alts[0] if len(alts) == 1 else Node("choice", alts)

    def seq(self):
        items = [self.term()]
        while self.peek() == "~":
            self.take()
            items.append(self.term())
        return items[0] if len(items) == 1 else Node("seq", items)

    def term(self):
        pre = []
        while self.peek() in ("!", "&"):
            pre.append(self.take()[0])
        if self.peek() == "^":
            self.take()
        k = self.peek()
        if k == "(":
            self.take()
            n = self.choice()
            assert self.take()[0] == ")"
        elif k == "str":
            raw = self.take()[1]
            try:
                val = bytes(raw[1:-1], "utf-8").decode("unicode_escape")
            except Exception:
                val = raw[1:-1]
            n = Node("lit", v=val)
        elif k == "chr":
            self.take()
            if self.peek() == "..":
                self.take()
                self.take()
            n = Node("lit")
        elif k == "id":
            name = self.take()[1]
            if name == "PUSH" and self.peek() == "(":
                self.take()
                n = self.choice()
                assert self.take()[0] == ")"
            else:
                n = Node("id", v=name)
        else:
            raise ValueError(f"pest parser: unexpected token {self.t[self.i:self.i + 3]}")
        while self.peek() in ("*", "+", "?", "rep"):
            op = self.take()
            if op[0] == "rep":
                m = re.match(r"\{\s*(\d*)\s*(,?)\s*(\d*)\s*\}", op[1])
                lo = int(m.group(1) or 0)
                hi = int(m.group(3)) if m.group(3) else (lo if not m.group(2) else None)
                n = Node("rep", [n], v="opt" if lo == 0 else "req")
                n.a.append("{}")
                n.a.append((lo, hi))
            else:
                n = Node("rep", [n], v="req" if op[0] == "+" else "opt")
                n.a.append("?" if op[0] == "?" else op[0])
        if pre:
            n = Node("pred", [n])
        return n


class Grammar:
    def __init__(self, path):
        self.raw = pest_rules(path)
        self.mod = {n: m for n, (m, _) in self.raw.items()}
        self.ast = {}
        for n, (_, body) in self.raw.items():
            p = P(tokenize(body))
            self.ast[n] = p.choice()
            if p.i != len(p.t):
                raise ValueError(f"pest parser: trailing tokens in rule {n}")
        self._memo = {}

    def silent(self, n):
        return self.mod.get(n) == "_"

    def atomic(self, n):
        return self.mod.get(n) == "@"

    # -- (first-token set, can produce zero tokens, all-token set) of an expression
    def shape(self, node, stack=()):
        k = node.k
        if k == "lit":
            return set(), True, set()
        if k == "pred":
            return set(), True, set()
        if k == "id":
            n = node.v
            if n == "EOI":
                return {"EOI"}, False, {"EOI"}
            if n not in self.ast:
                return set(), True, set()      # built-in character class
            if not self.silent(n):
                return {n}, False, {n}
            if n in stack:
                return set(), False, set()
            return self.shape(self.ast[n], stack + (n,))
        if k == "rep":
            f, z, a = self.shape(node.a[0], stack)
            return f, (True if node.v == "opt" else z), a
        if k == "choice":
            F, Z, A = set(), False, set()
            for c in node.a:
                f, z, a = self.shape(c, stack)
                F |= f
                A |= a
                Z = Z or z
            return F, Z, A
        if k == "seq":
            F, A = set(), set()
            Z = True
            for c in node.a:
                f, z, a = self.shape(c, stack)
                if Z:
                    F |= f
                A |= a
                Z = Z and z
            return F, Z, A
        raise ValueError(k)

    def children(self, rule):
        """non-silent rules that can be direct children of a `rule` node (or, for a silent rule, the tokens it expands to)"""
        if self.atomic(rule):
            return set()
        return self.shape(self.ast[rule], (rule,))[2]

    def first(self, rule):
        if self.atomic(rule):
            return set()
        return self.shape(self.ast[rule], (rule,))[0]

    INF = 10 ** 9

    def count(self, node, stack=()):
        """(min, max) number of tokens an expression produces; None if not determined"""
        k = node.k
        if k in ("lit", "pred"):
            return (0, 0)
        if k == "id":
            n = node.v
            if n == "EOI":
                return (1, 1)
            if n not in self.ast:
                return (0, 0)
            if not self.silent(n):
                return (1, 1)
            if n in stack:
                return None
            return self.count(self.ast[n], stack + (n,))
        if k == "rep":
            c = self.count(node.a[0], stack)
            if c is None:
                return None
            kind = node.a[1] if len(node.a) > 1 else "*"
            if kind == "?":
                return (0, c[1])
            if kind == "*":
                return (0, self.INF if c[1] else 0)
            if kind == "+":
                return (c[0], self.INF if c[1] else 0)
            return None if c[1] else (0, 0)
        if k == "choice":
            cs = [self.count(c, stack) for c in node.a]
            if any(c is None for c in cs):
                return None
            return (min(c[0] for c in cs), max(c[1] for c in cs))
        if k == "seq":
            lo = hi = 0
            for c in node.a:
                x = self.count(c, stack)
                if x is None:
                    return None
                lo += x[0]
                hi = min(self.INF, hi + x[1])
            return (lo, hi)
        return None

    def child_count(self, rule):
        if self.atomic(rule):
            return (0, 0)
        return self.count(self.ast[rule], (rule,))


def escape_alternatives(g):
    """alternatives after the backslash in `string_escape`: list of (leading literal, tail) where tail is a list of
    ('hex', lo, hi) | ('lit', text) | ('other',) parts"""
    ast = g.ast.get("string_escape")
    if ast is None or ast.k != "seq" or ast.a[0].k != "lit" or ast.a[0].v != "\\":
        return None
    rest = ast.a[1:]
    alt_node = rest[0] if len(rest) == 1 else Node("seq", rest)
    alts = alt_node.a if alt_node.k == "choice" else [alt_node]
    out = []
    for a in alts:
        parts = a.a if a.k == "seq" else [a]
        if parts[0].k != "lit":
            out.append((None, [("other",)]))
            continue
        tail = []
        for p in parts[1:]:
            if p.k == "rep" and p.a[0].k == "id" and p.a[0].v == "ASCII_HEX_DIGIT":
                kind = p.a[1]
                if kind == "{}":
                    lo, hi = p.a[2]
                elif kind == "+":
                    lo, hi = 1, None
                elif kind == "*":
                    lo, hi = 0, None
                else:
                    lo, hi = 0, 1
                tail.append(("hex", lo, hi))
            elif p.k == "id" and p.v == "ASCII_HEX_DIGIT":
                tail.append(("hex", 1, 1))
            elif p.k == "lit":
                tail.append(("lit", p.v))
            else:
                tail.append(("other",))
        out.append((parts[0].v, tail))
    return out
