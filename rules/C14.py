"""C14  The operation-head store never loses a published operation.

Static clauses (DESIGN.md §5 C14):
 a. add-before-remove in every workspace impl of OpHeadsStore::update_op_heads,
    the add `?`-checked, removals guarded by old != new
 b. only ancestors/parents of the new head are ever passed as old_ids
 c. who may call update_op_heads (frozen table)
 d. published => stored: UnpublishedOperation::new private, called only from
    Transaction::write after write_view / write_operation / write_index (each `?`-checked)
 e. readers: get_op_heads returns Err rather than an empty list; resolve re-reads under the lock
"""
from jjv.lib import (bool_edges, callee_reaches, find_ok_nodes, find_try_edge, impls_of, name_matches, norm, ok_exit_nodes, show,
                     strip, term_calls)

UPDATE = "jj_lib::op_heads_store::OpHeadsStore::update_op_heads"
GET = "jj_lib::op_heads_store::OpHeadsStore::get_op_heads"
LOCK = "jj_lib::op_heads_store::OpHeadsStore::lock"

FILE_CREATE = ("std::fs::write", "re:^std::fs::File::(create|create_new)$", "re:^std::fs::OpenOptions::open$",
               "re:NamedTempFile.*::persist", "std::fs::rename", "std::fs::hard_link", "std::fs::copy")
FILE_REMOVE = ("std::fs::remove_file", "std::fs::remove_dir_all", "std::fs::remove_dir")

# who may call update_op_heads: family root -> (multiplicity, shape, reason)
CALLERS = {
    "jj_lib::transaction::UnpublishedOperation::publish": (1, "parents-of-new", "publishing a written operation"),
    "jj_lib::op_heads_store::resolve_op_heads": (2, "resolve", "reconciling divergent heads"),
    "jj_cli::commands::operation::integrate::cmd_op_integrate": (1, "parents-of-new",
                                                                  "publishes an existing stored operation"),
    "jj_cli::commands::operation::abandon::cmd_op_abandon": (1, "abandon",
                                                              "drops operations on explicit user request; replaces a "
                                                              "head by its re-parented copy"),
}

PARENT_IDS = "jj_lib::operation::Operation::parent_ids"
OP_ID = "jj_lib::operation::Operation::id"


def run(ctx):
    F = ctx.F
    ctx.explanation = (
        "Static path/ownership rules over MIR of the real build: (a) in every workspace impl of "
        "OpHeadsStore::update_op_heads the call that creates the new head file set-dominates every call that "
        "removes a head file and its Result is ?-checked in between; removal is on the old!=new edge; (b) the "
        "old_ids argument at every update_op_heads call site has provenance {heads filtered out by dag_walk heads, "
        "parent_ids of the very operation being published}; (c) the set of callers is a frozen table; (d) "
        "UnpublishedOperation::new is module-private and dominated by ?-checked write_view/write_operation/"
        "write_index; (e) get_op_heads returns Ok only on the non-empty edge.  These constrain each process's own "
        "step order on all paths, hence every interleaving and crash point.")
    ctx.clauses = ["add-before-remove on all paths", "only ancestors/parents removed", "who may update op heads",
                   "published implies stored (typestate)", "reader never returns an empty head list"]
    ctx.not_decided = ["that the reconciled operation descends from every head (C13.c covers the parent list)",
                       "per-file atomicity of fs::write/remove_file", "custom OpHeadsStore impls outside the workspace"]
    ctx.assumptions = ["creating an empty file and removing a file are atomic per file",
                       "cfg(test) code is not analysed"]
    rule_a(ctx)
    rule_b_c(ctx)
    rule_d(ctx)
    rule_e(ctx)


def rule_a(ctx):
    F = ctx.F
    impls = impls_of(F, UPDATE)
    if not ctx.anchor("C14.a", "impls of OpHeadsStore::update_op_heads", impls, 1):
        return
    for impl in impls:
        bodies = F.family_bodies(impl)
        ctx.fn_seen(*[b.id for b in bodies])
        adders, removers = [], []
        for b in bodies:
            for c in b.calls:
                if c.cleanup or c.bb not in b.reachable:
                    continue
                if not any(n.startswith(("jj_lib::", "<jj_lib::", "std::fs::")) for n in c.names):
                    continue
                if callee_reaches(F, c, FILE_CREATE, crates=("jj_lib",)):
                    adders.append(c)
                if callee_reaches(F, c, FILE_REMOVE, crates=("jj_lib",)):
                    removers.append(c)
        ctx.anchor("C14.a", f"{impl}: head-creating calls", adders, 1)
        ctx.anchor("C14.a", f"{impl}: head-removing calls", removers, 1)
        for r in removers:
            b = r.body
            same = [a for a in adders if a.body is b]
            edges = set()
            for a in same:
                edges |= find_ok_nodes(F, b, a)
            plain = [a.bb for a in same]
            ok_order = b.set_dominated(r.bb, set(plain)) if plain else False
            ok_checked = b.set_dominated(r.bb, set(edges)) if edges else False
            path = None
            if not ok_checked:
                p = b.path_avoiding([0], [r.bb], set(edges))
                path = b.show_path(p) if p else None
            ctx.ob("C14.a/add-before-remove", f"{impl}|{r.res or r.decl}", ok_order,
                   f"every path to the removal passes the creation of the new head ({[a.res for a in same]})"
                   if ok_order else f"a path reaches the removal without creating the new head first: {path}",
                   where=r.where())
            ctx.ob("C14.a/add-checked", f"{impl}|{r.res or r.decl}", ok_checked,
                   "the creation's Result is ?-checked before any removal" if ok_checked else
                   f"removal reachable although the creation of the new head failed or was not checked: {path}",
                   where=r.where())
            # removal only when old != new
            guard_ok, detail = False, "no comparison between the old id and the new id guards the removal"
            for c in b.calls:
                if c.cleanup or c.decl not in ("std::cmp::PartialEq::eq", "std::cmp::PartialEq::ne"):
                    continue
                if "OperationId" not in (c.self_ty or "") and "OperationId" not in c.generics:
                    continue
                trues, falses = bool_edges(F, b, c)
                want = falses if c.decl.endswith("::eq") else trues
                if want and b.set_dominated(r.bb, set(want)):
                    guard_ok, detail = True, "removal is on the old!=new edge of the id comparison"
            if not guard_ok:
                # comparison inside a filter closure of the same family is accepted
                for ob_ in bodies:
                    if ob_ is b:
                        continue
                    if any(c.decl in ("std::cmp::PartialEq::eq", "std::cmp::PartialEq::ne") and
                           "OperationId" in ((c.self_ty or "") + c.generics) for c in ob_.calls):
                        guard_ok, detail = True, "ids are compared in a closure of the same family (filter form)"
            ctx.ob("C14.a/remove-guarded", f"{impl}|{r.res or r.decl}", guard_ok, detail, where=r.where())


def _old_components(term):
    """split the provenance of an old_ids argument into the values that may end up in the list"""
    t = strip(term, extra=("re:collect_vec$", "re:::cloned$", "re:::collect$", "re:::deref$", "re:::as_slice$"))
    if isinstance(t, tuple) and t[0] == "mut":
        comps = _old_components(t[1])
        for c in t[2]:
            if isinstance(c, tuple) and c[0] == "call":
                comps.extend(a for a in c[2][1:])
            else:
                comps.append(c)
        return comps
    if isinstance(t, tuple) and t[0] == "alt":
        out = []
        for a in t[1]:
            out.extend(_old_components(a))
        return out
    return [t]


def _reads(t):
    """call sites of OpHeadsStore::get_op_heads a term derives from"""
    return {x[3][:2] for x in term_calls(t) if x[1] == GET and x[3]}


def _is_filtered_out_heads(t):
    """before.difference(after) where `after` derives from dag_walk heads() and `before` does not, and both derive
    from the SAME read of the op heads (a head published between two different reads would otherwise be classed
    as an ancestor and removed)"""
    for c in term_calls(t):
        if name_matches(c[1], "re:HashSet.*::difference$") and len(c[2]) >= 2:
            a_has = any(name_matches(x[1], "re:^jj_core::dag_walk(_async)?::heads") for x in term_calls(c[2][0]))
            b_has = any(name_matches(x[1], "re:^jj_core::dag_walk(_async)?::heads") for x in term_calls(c[2][1]))
            ra, rb = _reads(c[2][0]), _reads(c[2][1])
            if b_has and not a_has and ra and ra == rb:
                return True
    return False


def rule_b_c(ctx):
    F = ctx.F
    sites = F.all_calls_to(UPDATE)
    ctx.anchor("C14.c", "call sites of update_op_heads", sites, 5)
    by_root = {}
    for c in sites:
        by_root.setdefault(c.body.root, []).append(c)
    for root, cs in sorted(by_root.items()):
        ctx.fn_seen(root)
        ent = CALLERS.get(root)
        ctx.ob("C14.c/who-may-call", root, ent is not None and len(cs) <= ent[0],
               f"tabled caller ({ent[2]}), {len(cs)} site(s)" if ent else
               "a function outside the frozen caller table updates the operation heads", where=cs[0].where(),
               sites=len(cs))
        if not ent:
            continue
        shape = ent[1]
        for i, c in enumerate(cs):
            sl = F.slicer(c.body.id, with_mutators=True)
            old = sl.call_arg(c, 1)
            new = sl.call_arg(c, 2)
            key = f"{root}#{i}"
            if shape in ("parents-of-new", "resolve"):
                comps = _old_components(old)
                newn = norm(new)
                new_op = newn[2][0] if (isinstance(newn, tuple) and newn[0] == "call" and newn[1] == OP_ID and newn[2]) else None
                bad = []
                for comp in comps:
                    cn = norm(comp)
                    if isinstance(cn, tuple) and cn[0] == "call" and cn[1] == PARENT_IDS and new_op is not None \
                            and cn[2] and cn[2][0] == new_op:
                        continue
                    if shape == "resolve" and _is_filtered_out_heads(comp):
                        continue
                    if isinstance(cn, tuple) and cn[0] == "call" and name_matches(cn[1], ("re:^std::vec::Vec::<T>::new$",)):
                        continue
                    bad.append(show(comp))
                ok = not bad and new_op is not None
                ctx.ob("C14.b/only-ancestors-removed", key, ok,
                       f"old_ids = {show(old)[:300]} ; new_id = {show(new)[:160]}" if ok else
                       f"old_ids has a component that is neither parent_ids(new op) nor heads filtered out as "
                       f"ancestors: {bad[:2]} (new_id = {show(new)[:200]})", where=c.where())
            elif shape == "abandon":
                # new id must come from op_walk::reparent_range (operations written to the op store first)
                has = any(name_matches(x[1], "re:^jj_lib::op_walk::reparent_range") for x in term_calls(new))
                ctx.ob("C14.b/abandon-new-id-is-reparented", key, has,
                       f"new_id = {show(new)[:300]}" if has else
                       f"new head of `op abandon` does not derive from reparent_range: {show(new)[:300]}",
                       where=c.where())
    # reparent_range writes operations before returning their ids
    rr = F.find_fns("re:^jj_lib::op_walk::reparent_range($|::\\{closure#0\\}$)")
    ctx.anchor("C14.b", "op_walk::reparent_range", rr, 1)
    found = False
    for fid in rr:
        b = F.body(fid)
        if b.calls_to("jj_lib::op_store::OpStore::write_operation"):
            found = True
    ctx.ob("C14.b/reparent-writes-operations", "jj_lib::op_walk::reparent_range", found,
           "re-parented operations are written with OpStore::write_operation" if found else
           "reparent_range no longer writes the operations it returns")


def rule_d(ctx):
    F = ctx.F
    NEW = "jj_lib::transaction::UnpublishedOperation::new"
    fn = F.fn(NEW)
    if not ctx.anchor("C14.d", NEW, 1 if fn else 0, 1):
        return
    ctx.ob("C14.d/ctor-private", NEW, fn["vis"].startswith("in:jj_lib::transaction"),
           f"visibility {fn['vis']}", where=f"{fn['file']}:{fn['lo']}")
    # the struct cannot be built elsewhere either
    aggs = F.q("SELECT fn FROM aggregate WHERE adt='jj_lib::transaction::UnpublishedOperation'")
    outside = [r["fn"] for r in aggs if r["fn"] != NEW]
    ctx.ob("C14.d/struct-literal-only-in-ctor", "UnpublishedOperation", not outside and len(aggs) >= 1,
           "only UnpublishedOperation::new builds the struct" if not outside else f"also built in {outside}")
    sites = F.all_calls_to(NEW)
    ctx.anchor("C14.d", "callers of UnpublishedOperation::new", sites, 1)
    for c in sites:
        ok_caller = c.body.root == "jj_lib::transaction::Transaction::write"
        ctx.ob("C14.d/who-may-call", c.body.root, ok_caller, "called from Transaction::write" if ok_caller else
               "UnpublishedOperation::new called from an unexpected function", where=c.where())
        if not ok_caller:
            continue
        b = c.body
        ctx.fn_seen(b.id)
        prev_edge = None
        for callee in ("jj_lib::op_store::OpStore::write_view", "jj_lib::op_store::OpStore::write_operation",
                       "jj_lib::index::IndexStore::write_index"):
            ws = b.calls_to(callee)
            if not ctx.anchor("C14.d", f"{callee} in Transaction::write", ws, 1):
                continue
            edges = set()
            for w in ws:
                edges |= find_ok_nodes(F, b, w)
            ok = bool(edges) and b.set_dominated(c.bb, set(edges))
            p = None if ok else b.path_avoiding([0], [c.bb], set(edges))
            ctx.ob("C14.d/stored-before-publishable", callee, ok,
                   "?-checked and dominates UnpublishedOperation::new" if ok else
                   f"UnpublishedOperation::new reachable without a successful {callee}: {b.show_path(p) if p else ''}",
                   where=ws[0].where())
            # ordering view -> operation -> index
            if prev_edge is not None:
                ok2 = all(b.set_dominated(w.bb, prev_edge) for w in ws)
                ctx.ob("C14.d/write-order", callee, ok2, "preceded by the ?-checked previous write" if ok2 else
                       f"{callee} can run before the previous store write succeeded", where=ws[0].where())
            prev_edge = set(edges)
    # publish consumes the value returned by write: Transaction::commit = write()?.publish()
    for fid in F.find_fns("re:^jj_lib::transaction::Transaction::commit::\\{closure#0\\}$"):
        b = F.body(fid)
        ctx.fn_seen(fid)
        pubs = b.calls_to("jj_lib::transaction::UnpublishedOperation::publish")
        wr = b.calls_to("jj_lib::transaction::Transaction::write")
        ok = False
        if pubs and wr:
            e = find_try_edge(F, b, wr[0])
            ok = e is not None and b.set_dominated(pubs[0].bb, {e})
        ctx.ob("C14.d/commit-is-write-then-publish", fid, ok,
               "publish is reached only through the ?-checked result of write" if ok else
               "Transaction::commit publishes without a successful write")


def rule_e(ctx):
    F = ctx.F
    impls = impls_of(F, GET)
    ctx.anchor("C14.e", "impls of get_op_heads", impls, 1)
    for impl in impls:
        for b in F.family_bodies(impl):
            ok_nodes, err_nodes, other = ok_exit_nodes(F, b)
            if not ok_nodes:
                continue
            ctx.fn_seen(b.id)
            tests = [c for c in b.calls if not c.cleanup and name_matches(c.res or c.decl, "re:::is_empty$")]
            nonempty = []
            for tcall in tests:
                trues, falses = bool_edges(F, b, tcall)
                nonempty.extend(falses)
            ok = bool(nonempty) and all(b.set_dominated(n, set(nonempty)) for n in ok_nodes)
            ctx.ob("C14.e/never-empty", impl, ok,
                   "Ok(heads) is produced only on the !is_empty edge" if ok else
                   "get_op_heads can return Ok with an empty list", where=f"{b.file}")
    # resolve_op_heads re-reads the heads after taking the lock
    for fid in F.find_fns("re:^jj_lib::op_heads_store::resolve_op_heads::\\{closure#0\\}$"):
        b = F.body(fid)
        ctx.fn_seen(fid)
        locks = b.calls_to(LOCK)
        gets = b.calls_to(GET)
        upd = b.calls_to(UPDATE)
        ok = False
        if locks and gets and upd:
            e = find_try_edge(F, b, locks[0])
            after_lock = [g for g in gets if e is not None and b.set_dominated(g.bb, {e})]
            ok = bool(after_lock) and all(b.set_dominated(u.bb, {g.bb for g in after_lock}) for u in upd)
        ctx.ob("C14.e/reread-under-lock", fid, ok,
               "heads are re-read after taking the lock and before any update" if ok else
               "resolve_op_heads updates heads without re-reading them under the lock")
