#!/bin/bash
# demo: a forgotten workspace's unsnapshotted edit is lost when the workspace reappears (jj op restore)
set -e
JJ=${JJ:-/repo/target/debug/jj}
T=$(mktemp -d /tmp/f3demo.XXXXXX); cd $T
export JJ_CONFIG=/dev/null JJ_USER=t JJ_EMAIL=t@example.com HOME=$T
$JJ git init main >/dev/null 2>&1; cd main
echo base > f1; $JJ commit -m base >/dev/null 2>&1
OP_BEFORE=$($JJ op log --no-graph -T 'id.short() ++ "\n"' -n1)
$JJ workspace add ../ws2 >/dev/null 2>&1
OP_AFTER=$($JJ op log --no-graph -T 'id.short() ++ "\n"' -n1)
cd ../ws2; echo one > f2; $JJ commit -m "add f2" >/dev/null 2>&1
cd ../main; $JJ op restore $OP_BEFORE >/dev/null 2>&1
cd ../ws2; echo "precious edit" > f2
$JJ op restore $OP_AFTER 2>&1 | tail -3
echo "--- f2 on disk now:"; cat f2 2>/dev/null || echo "(f2 is gone)"
if grep -q "precious edit" f2 2>/dev/null; then echo "--- the working copy was not touched; following the hint:"; $JJ workspace update-stale 2>&1 | tail -4; fi
echo "--- searching every operation's working-copy commits for the edit"
found=0
for op in $($JJ op log --no-graph -T 'id.short() ++ "\n"' --ignore-working-copy); do
  for ws in default ws2; do
    if $JJ --ignore-working-copy --at-op $op file show -r "$ws@" f2 2>/dev/null | grep -q "precious edit"; then found=1; fi
  done
done
if [ $found = 1 ]; then echo "RECORDED: the edit is recoverable from the operation log"; rm -rf $T; exit 0; else echo "LOST: 'precious edit' is in no operation's working-copy commit"; rm -rf $T; exit 1; fi
