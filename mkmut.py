#!/usr/bin/env python3
"""dev helper: mkmut.py <prop> <name> <file> <<< 'OLD\n=====\nNEW'  -> mutants/<prop>/<name>.patch (repo left clean)"""
import subprocess, sys, os
prop, name, path = sys.argv[1:4]
old, new = sys.stdin.read().split("\n=====\n")
old = old.strip("\n"); new = new.strip("\n")
full = os.path.join("/repo", path)
s = open(full).read()
assert s.count(old) == 1, f"old text occurs {s.count(old)} times"
open(full, "w").write(s.replace(old, new))
d = subprocess.run(["git", "-C", "/repo", "diff"], capture_output=True, text=True).stdout
os.makedirs(f"/verif/mutants/{prop}", exist_ok=True)
open(f"/verif/mutants/{prop}/{name}.patch", "w").write(d)
subprocess.run(["git", "-C", "/repo", "checkout", "--", "."], check=True)
print("wrote", f"/verif/mutants/{prop}/{name}.patch", len(d.splitlines()), "lines")
