#!/usr/bin/env python3
"""import_seed.py <prop> <name> <seed out dir> <verify log> [--needs TEXT]
Checks the verification log produced by verify_seed.sh (demo passes without / fails with the change; every
failing existing test is outside the baseline's stable_pass list), runs the property's static check against the
change applied to /repo (then reverts it), and stores everything under /verif/seeded/<prop>-<name>/."""
import json, os, re, shutil, subprocess, sys
prop, name, sd, log = sys.argv[1:5]
needs = sys.argv[6] if len(sys.argv) > 6 and sys.argv[5] == "--needs" else ""
V = "/verif"
text = open(log).read()
m1 = re.search(r"DEMO_WITHOUT_CHANGE_EXIT=(\d+)", text); m2 = re.search(r"DEMO_WITH_CHANGE_EXIT=(\d+)", text)
assert m1 and m2, "verification log incomplete"
stable = set(json.load(open("/root/.vp/BASELINE.json"))["stable_pass"])
fails = set(re.findall(r"FAIL \[[^\]]*\] \(\s*\d+/\d+\) (\S+(?: \S+)?)", text))
fails = {f.replace(" ", "::") for f in fails}
broken_existing = sorted(f for f in fails if f in stable)
summ = re.findall(r"Summary \[[^\]]*\] (\d+ tests run: .*)", text)
ok = m1.group(1) == "0" and m2.group(1) != "0" and not broken_existing
print("demo without change exit", m1.group(1), "| with change exit", m2.group(1), "| existing stable tests broken:", broken_existing[:5])
print("summaries:", summ)
if not ok:
    print("NOT CONFIRMED"); sys.exit(1)
dst = os.path.join(V, "seeded", f"{prop}-{name}")
os.makedirs(dst, exist_ok=True)
for f in os.listdir(sd):
    if os.path.isfile(os.path.join(sd, f)):
        shutil.copy(os.path.join(sd, f), dst)
shutil.copy(log, os.path.join(dst, "verify.log"))
# run the static check against the change
subprocess.run(["git", "-C", "/repo", "apply", os.path.join(dst, "patch.diff")], check=True)
try:
    env = dict(os.environ, JJV_EVIDENCE_DIR="/tmp/jjv-seed-evidence")
    r = subprocess.run([os.path.join(V, "check"), prop], capture_output=True, text=True, env=env, cwd=V)
finally:
    subprocess.run(["git", "-C", "/repo", "checkout", "--", "."], check=True)
fired = [l.strip()[:300] for l in r.stdout.splitlines() if l.strip().startswith("FAILED")]
detected = r.returncode == 1 and "VIOLATION property=" in r.stdout
meta = {
    "property": prop, "name": name,
    "breaks": open(os.path.join(dst, "notes.md")).read()[:1500] if os.path.exists(os.path.join(dst, "notes.md")) else "",
    "needs_to_manifest": needs,
    "what_i_ran": ["verify_seed.sh: demo without the change (pass), demo with the change (fail), existing tests of the "
                   "listed packages with the change (no test of BASELINE stable_pass fails)", *summ],
    "detected_by_static_check": detected, "rules_fired": fired,
}
json.dump(meta, open(os.path.join(dst, "meta.json"), "w"), indent=1)
print("stored", dst, "detected" if detected else "MISSED", fired[:3])
