//! Minimal streaming JSON writer (the driver has no cargo dependencies).
use std::fmt::Write as _;

pub struct J {
    buf: String,
    // stack of "needs a comma before the next element"
    need_comma: Vec<bool>,
    after_key: bool,
}

impl J {
    pub fn obj() -> J {
        let mut j = J { buf: String::with_capacity(4096), need_comma: Vec::new(), after_key: false };
        j.obj_begin();
        j
    }

    fn sep(&mut self) {
        if self.after_key {
            self.after_key = false;
            return;
        }
        if let Some(nc) = self.need_comma.last_mut() {
            if *nc {
                self.buf.push(',');
            }
            *nc = true;
        }
    }

    pub fn obj_begin(&mut self) {
        self.sep();
        self.buf.push('{');
        self.need_comma.push(false);
    }
    pub fn obj_end(&mut self) {
        self.need_comma.pop();
        self.buf.push('}');
    }
    pub fn arr_begin(&mut self) {
        self.sep();
        self.buf.push('[');
        self.need_comma.push(false);
    }
    pub fn arr_end(&mut self) {
        self.need_comma.pop();
        self.buf.push(']');
    }
    pub fn key(&mut self, k: &str) {
        self.sep();
        esc(&mut self.buf, k);
        self.buf.push(':');
        self.after_key = true;
    }
    pub fn str(&mut self, k: &str, v: &str) {
        self.key(k);
        self.str_item(v);
    }
    pub fn num(&mut self, k: &str, v: i128) {
        self.key(k);
        self.num_item(v);
    }
    pub fn boolean(&mut self, k: &str, v: bool) {
        self.key(k);
        self.sep();
        self.buf.push_str(if v { "true" } else { "false" });
    }
    pub fn str_item(&mut self, v: &str) {
        self.sep();
        esc(&mut self.buf, v);
    }
    pub fn num_item(&mut self, v: i128) {
        self.sep();
        // JSON numbers beyond 2^53 lose precision in some readers: emit big ones as strings
        if v > (1i128 << 62) || v < -(1i128 << 62) {
            let _ = write!(self.buf, "\"{}\"", v);
        } else {
            let _ = write!(self.buf, "{}", v);
        }
    }
    pub fn end_into(mut self, out: &mut String) {
        self.obj_end();
        out.push_str(&self.buf);
        out.push('\n');
    }
}

fn esc(buf: &mut String, s: &str) {
    buf.push('"');
    for c in s.chars() {
        match c {
            '"' => buf.push_str("\\\""),
            '\\' => buf.push_str("\\\\"),
            '\n' => buf.push_str("\\n"),
            '\r' => buf.push_str("\\r"),
            '\t' => buf.push_str("\\t"),
            c if (c as u32) < 0x20 => {
                let _ = write!(buf, "\\u{:04x}", c as u32);
            }
            c => buf.push(c),
        }
    }
    buf.push('"');
}
