//! jjv-driver: a rustc_private driver that dumps facts about the resolved
//! program (MIR after promotion, before borrowck/drop elaboration) of the
//! workspace crates it is asked to look at.  It is injected with
//! RUSTC_WORKSPACE_WRAPPER; for every other crate it behaves like rustc.
//!
//! Output: one JSONL file per rustc process, `$JJV_FACTS_DIR/facts-<crate>-<pid>.jsonl`
//! written in a single `fs::write` at the end (no interleaving).
#![feature(rustc_private)]
#![allow(clippy::all)]

extern crate rustc_abi;
extern crate rustc_data_structures;
extern crate rustc_driver;
extern crate rustc_hir;
extern crate rustc_interface;
extern crate rustc_lexer;
extern crate rustc_middle;
extern crate rustc_session;
extern crate rustc_span;

use std::fmt::Write as _;

use rustc_driver::Compilation;
use rustc_hir::def::DefKind;
use rustc_hir::def_id::{DefId, LocalDefId};
use rustc_middle::mir::{
    self, AggregateKind, BasicBlock, BorrowKind, Body, Const, ConstValue, Operand, Place,
    PlaceElem, Rvalue, StatementKind, TerminatorKind, UnwindAction,
};
use rustc_middle::ty::print::{with_crate_prefix, with_no_trimmed_paths};
use rustc_middle::ty::{self, Instance, Ty, TyCtxt, TypingEnv};
use rustc_span::Span;

mod json;
use json::J;

struct Facts {
    out_dir: String,
    crate_name: String,
}

fn main() {
    let mut args: Vec<String> = std::env::args().collect();
    // As RUSTC_WORKSPACE_WRAPPER, argv[1] is the path of the real rustc.
    if args.len() > 1 && (args[1].ends_with("rustc") || args[1].ends_with("rustc.exe")) {
        args.remove(1);
    }
    let crate_name = args
        .iter()
        .position(|a| a == "--crate-name")
        .and_then(|i| args.get(i + 1))
        .cloned()
        .unwrap_or_default();
    let out_dir = std::env::var("JJV_FACTS_DIR").unwrap_or_default();
    let wanted = std::env::var("JJV_CRATES").unwrap_or_else(|_| "jj_core,jj_lib,jj_cli".into());
    let is_target = !out_dir.is_empty()
        && wanted.split(',').any(|c| c == crate_name)
        // `cargo check` probes with `--print`/`-vV`: nothing to analyse
        && !args.iter().any(|a| a.starts_with("--print") || a == "-vV");
    if is_target {
        let mut cb = Facts { out_dir, crate_name };
        rustc_driver::run_compiler(&args, &mut cb);
    } else {
        struct Plain;
        impl rustc_driver::Callbacks for Plain {}
        rustc_driver::run_compiler(&args, &mut Plain);
    }
}

impl rustc_driver::Callbacks for Facts {
    fn after_expansion<'tcx>(
        &mut self,
        _compiler: &rustc_interface::interface::Compiler,
        tcx: TyCtxt<'tcx>,
    ) -> Compilation {
        let mut out = String::with_capacity(64 << 20);
        let mut n_bodies = 0usize;
        let mut n_stolen = 0usize;
        let krate = tcx.crate_name(rustc_hir::def_id::LOCAL_CRATE).to_string();

        // --- bodies --------------------------------------------------------
        for ldid in tcx.hir_body_owners() {
            let kind = tcx.def_kind(ldid);
            match kind {
                DefKind::Fn | DefKind::AssocFn | DefKind::Closure | DefKind::SyntheticCoroutineBody => {}
                _ => continue, // consts / statics / anon consts: no control flow of interest
            }
            let (steal, _promoted) = tcx.mir_promoted(ldid);
            if steal.is_stolen() {
                n_stolen += 1;
                let mut j = J::obj();
                j.str("t", "stolen");
                j.str("id", &path(tcx, ldid.to_def_id()));
                j.end_into(&mut out);
                continue;
            }
            let body = steal.borrow();
            emit_body(tcx, &krate, ldid, &body, &mut out);
            n_bodies += 1;
        }
        // --- ADTs, consts, and bodiless fn declarations -------------------
        for ldid in tcx.hir_crate_items(()).definitions() {
            let did = ldid.to_def_id();
            match tcx.def_kind(did) {
                DefKind::Struct | DefKind::Enum | DefKind::Union => {
                    emit_adt(tcx, &krate, did, &mut out);
                }
                DefKind::Const { .. } | DefKind::AssocConst { .. } | DefKind::Static { .. } => {
                    emit_const(tcx, &krate, did, &mut out);
                }
                DefKind::Impl { .. } => emit_impl(tcx, &krate, did, &mut out),
                DefKind::AssocFn | DefKind::Fn => {
                    // declarations without a body (trait required methods)
                    if !tcx.is_mir_available(did) && ldid_has_no_body(tcx, ldid) {
                        emit_decl(tcx, &krate, ldid, &mut out);
                    }
                }
                _ => {}
            }
        }

        {
            let mut j = J::obj();
            j.str("t", "summary");
            j.str("crate", &krate);
            j.num("bodies", n_bodies as i128);
            j.num("stolen", n_stolen as i128);
            j.end_into(&mut out);
        }
        let file = format!("{}/facts-{}-{}.jsonl", self.out_dir, self.crate_name, std::process::id());
        std::fs::write(&file, out).expect("jjv-driver: cannot write facts");
        Compilation::Continue
    }
}

fn ldid_has_no_body(tcx: TyCtxt<'_>, ldid: LocalDefId) -> bool {
    tcx.hir_maybe_body_owned_by(ldid).is_none()
}

/// Replace the `crate::` prefix printed for local items by the crate's name so
/// that paths agree between the crate that defines an item and its users.
fn fix_crate(tcx: TyCtxt<'_>, s: String) -> String {
    if !s.contains("crate::") {
        return s;
    }
    let name = tcx.crate_name(rustc_hir::def_id::LOCAL_CRATE);
    let name = name.as_str();
    let mut out = String::with_capacity(s.len() + 16);
    let bytes = s.as_bytes();
    let mut i = 0;
    while i < bytes.len() {
        if s[i..].starts_with("crate::")
            && (i == 0 || !(bytes[i - 1].is_ascii_alphanumeric() || bytes[i - 1] == b'_'))
        {
            out.push_str(name);
            out.push_str("::");
            i += 7;
        } else {
            let ch = s[i..].chars().next().unwrap();
            out.push(ch);
            i += ch.len_utf8();
        }
    }
    out
}

fn path(tcx: TyCtxt<'_>, did: DefId) -> String {
    let s = with_crate_prefix!(with_no_trimmed_paths!(tcx.def_path_str(did)));
    fix_crate(tcx, s)
}

fn ty_str<'tcx>(tcx: TyCtxt<'tcx>, ty: Ty<'tcx>) -> String {
    let s = fix_crate(tcx, with_crate_prefix!(with_no_trimmed_paths!(ty.to_string())));
    if s.len() > 600 {
        let mut cut = 600;
        while !s.is_char_boundary(cut) {
            cut -= 1;
        }
        format!("{}…", &s[..cut])
    } else {
        s
    }
}

fn vis_str(tcx: TyCtxt<'_>, did: DefId) -> String {
    match tcx.def_kind(did) {
        DefKind::Fn | DefKind::AssocFn | DefKind::Struct | DefKind::Enum | DefKind::Union | DefKind::Field
        | DefKind::Const { .. } | DefKind::AssocConst { .. } | DefKind::Static { .. } | DefKind::Ctor(..) => {}
        _ => return "n/a".into(),
    }
    match tcx.visibility(did) {
        ty::Visibility::Public => "pub".into(),
        ty::Visibility::Restricted(m) => {
            if m.is_crate_root() {
                "crate".into()
            } else {
                format!("in:{}", path(tcx, m))
            }
        }
    }
}

fn file_line(tcx: TyCtxt<'_>, span: Span) -> (String, usize) {
    let sp = if span.from_expansion() { span.source_callsite() } else { span };
    let sm = tcx.sess.source_map();
    let loc = sm.lookup_char_pos(sp.lo());
    let name = match &loc.file.name {
        rustc_span::FileName::Real(r) => match r.local_path() {
            Some(p) => p.to_string_lossy().into_owned(),
            None => format!("{:?}", r),
        },
        other => format!("{:?}", other),
    };
    (name, loc.line)
}

fn line_of(tcx: TyCtxt<'_>, span: Span) -> usize {
    let sp = if span.from_expansion() { span.source_callsite() } else { span };
    tcx.sess.source_map().lookup_char_pos(sp.lo()).line
}

fn emit_adt(tcx: TyCtxt<'_>, krate: &str, did: DefId, out: &mut String) {
    let adt = tcx.adt_def(did);
    let mut j = J::obj();
    j.str("t", "adt");
    j.str("crate", krate);
    j.str("id", &path(tcx, did));
    j.str("kind", if adt.is_enum() { "enum" } else if adt.is_union() { "union" } else { "struct" });
    j.str("vis", &vis_str(tcx, did));
    let (f, l) = file_line(tcx, tcx.def_span(did));
    j.str("file", &f);
    j.num("line", l as i128);
    j.key("variants");
    j.arr_begin();
    for (vidx, v) in adt.variants().iter_enumerated() {
        j.obj_begin();
        j.str("n", v.name.as_str());
        if adt.is_enum() {
            let d = adt.discriminant_for_variant(tcx, vidx);
            j.num("discr", d.val as i128);
        }
        if let Some(ctor) = v.ctor_def_id() {
            j.str("ctor_vis", &vis_str(tcx, ctor));
        }
        j.key("fields");
        j.arr_begin();
        for fld in v.fields.iter() {
            j.obj_begin();
            j.str("n", fld.name.as_str());
            j.str("vis", &vis_str(tcx, fld.did));
            let fty = tcx.type_of(fld.did).instantiate_identity().skip_norm_wip();
            j.str("ty", &ty_str(tcx, fty));
            j.obj_end();
        }
        j.arr_end();
        j.obj_end();
    }
    j.arr_end();
    j.end_into(out);
}

fn emit_const(tcx: TyCtxt<'_>, krate: &str, did: DefId, out: &mut String) {
    // only non-generic items can be evaluated
    if tcx.generics_of(did).requires_monomorphization(tcx) {
        return;
    }
    if let DefKind::AssocConst { .. } = tcx.def_kind(did) {
        // assoc consts of traits without default / of generic impls: skip
        let parent = tcx.parent(did);
        if tcx.generics_of(parent).requires_monomorphization(tcx) {
            return;
        }
        if matches!(tcx.def_kind(parent), DefKind::Trait) {
            return;
        }
    }
    let ty = tcx.type_of(did).instantiate_identity().skip_norm_wip();
    let mut j = J::obj();
    j.str("t", "const");
    j.str("crate", krate);
    j.str("id", &path(tcx, did));
    j.str("ty", &ty_str(tcx, ty));
    j.str("vis", &vis_str(tcx, did));
    if !matches!(tcx.def_kind(did), DefKind::Static { .. }) {
        if let Ok(val) = tcx.const_eval_poly(did) {
            emit_const_value(tcx, &mut j, val, ty);
        }
    }
    j.end_into(out);
}

fn emit_const_value<'tcx>(tcx: TyCtxt<'tcx>, j: &mut J, val: ConstValue, ty: Ty<'tcx>) {
    match val {
        ConstValue::Scalar(mir::interpret::Scalar::Int(si)) => {
            if ty.is_bool() {
                j.boolean("v", si.to_uint(si.size()) != 0);
            } else if ty.is_char() {
                let c = char::from_u32(si.to_uint(si.size()) as u32).unwrap_or('\u{fffd}');
                j.str("v", &c.to_string());
                j.num("cv", si.to_uint(si.size()) as i128);
            } else if ty.is_integral() {
                let v: i128 = if ty.is_signed() { si.to_int(si.size()) } else { si.to_uint(si.size()) as i128 };
                j.num("v", v);
            } else if let ty::Adt(adt, _) = ty.kind() {
                // fieldless enum constant: report the variant
                if adt.is_enum() && adt.variants().iter().all(|v| v.fields.is_empty()) {
                    let bits = si.to_uint(si.size());
                    for (vidx, v) in adt.variants().iter_enumerated() {
                        if adt.discriminant_for_variant(tcx, vidx).val == bits {
                            j.str("variant", v.name.as_str());
                            j.str("adt", &path(tcx, adt.did()));
                        }
                    }
                }
            }
        }
        ConstValue::Scalar(mir::interpret::Scalar::Ptr(ptr, _)) => {
            // `&[u8; N]` (packed format_args! templates, byte-string literals): dump the bytes
            if let ty::Ref(_, inner, _) = ty.kind() {
                if let ty::Array(elem, len) = inner.kind() {
                    if *elem == tcx.types.u8 {
                        if let Some(n) = len.try_to_target_usize(tcx) {
                            let (prov, offset) = ptr.prov_and_relative_offset();
                            if let mir::interpret::GlobalAlloc::Memory(alloc) = tcx.global_alloc(prov.alloc_id()) {
                                let start = offset.bytes() as usize;
                                let end = start + n as usize;
                                let a = alloc.inner();
                                if end <= a.len() {
                                    let bytes = a.inspect_with_uninit_and_ptr_outside_interpreter(start..end);
                                    j.str("bytes", &bytes.iter().map(|b| *b as char).collect::<String>());
                                }
                            }
                        }
                    }
                }
            }
        }
        ConstValue::Slice { .. } => {
            if let Some(bytes) = val.try_get_slice_bytes_for_diagnostics(tcx) {
                // &str and &[u8]
                j.str("v", &String::from_utf8_lossy(bytes));
                j.boolean("slice", true);
            }
        }
        _ => {}
    }
}

fn emit_impl(tcx: TyCtxt<'_>, krate: &str, did: DefId, out: &mut String) {
    let mut j = J::obj();
    j.str("t", "impl");
    j.str("crate", krate);
    j.str("id", &path(tcx, did));
    let self_ty = tcx.type_of(did).instantiate_identity().skip_norm_wip();
    j.str("self_ty", &ty_str(tcx, self_ty));
    if let Some(tr) = tcx.impl_opt_trait_ref(did) {
        let tr = tr.instantiate_identity().skip_norm_wip();
        j.str("trait", &path(tcx, tr.def_id));
        j.str("trait_ref", &fix_crate(tcx, with_crate_prefix!(with_no_trimmed_paths!(tr.to_string()))));
    }
    let (f, l) = file_line(tcx, tcx.def_span(did));
    j.str("file", &f);
    j.num("line", l as i128);
    j.boolean("expn", tcx.def_span(did).from_expansion());
    j.key("items");
    j.arr_begin();
    for item in tcx.associated_items(did).in_definition_order() {
        if !matches!(item.kind, ty::AssocKind::Fn { .. }) {
            continue;
        }
        j.obj_begin();
        j.str("impl_item", &path(tcx, item.def_id));
        if let Some(ti) = item.trait_item_def_id() {
            j.str("trait_item", &path(tcx, ti));
        }
        j.obj_end();
    }
    j.arr_end();
    j.end_into(out);
}

fn emit_decl(tcx: TyCtxt<'_>, krate: &str, ldid: LocalDefId, out: &mut String) {
    let did = ldid.to_def_id();
    let mut j = J::obj();
    j.str("t", "decl");
    j.str("crate", krate);
    j.str("id", &path(tcx, did));
    j.str("vis", &vis_str(tcx, did));
    let parent = tcx.parent(did);
    if matches!(tcx.def_kind(parent), DefKind::Trait) {
        j.str("trait", &path(tcx, parent));
    }
    j.end_into(out);
}

// ---------------------------------------------------------------------------

struct Cx<'a, 'tcx> {
    tcx: TyCtxt<'tcx>,
    body: &'a Body<'tcx>,
    def: LocalDefId,
    env: TypingEnv<'tcx>,
}

fn emit_body<'tcx>(tcx: TyCtxt<'tcx>, krate: &str, ldid: LocalDefId, body: &Body<'tcx>, out: &mut String) {
    let did = ldid.to_def_id();
    let kind = tcx.def_kind(did);
    let cx = Cx { tcx, body, def: ldid, env: TypingEnv::post_analysis(tcx, did) };
    let mut j = J::obj();
    j.str("t", "body");
    j.str("crate", krate);
    j.str("id", &path(tcx, did));
    j.str("kind", &format!("{:?}", kind));
    let root = tcx.typeck_root_def_id(did);
    j.str("root", &path(tcx, root));
    if root != did {
        j.str("parent", &path(tcx, tcx.parent(did)));
    }
    j.str("vis", &vis_str(tcx, did));
    // impl / trait membership (of the typeck root for closures)
    if matches!(tcx.def_kind(root), DefKind::AssocFn) {
        let item = tcx.associated_item(root);
        let container = tcx.parent(root);
        match tcx.def_kind(container) {
            DefKind::Impl { .. } => {
                j.str("impl", &path(tcx, container));
                let self_ty = tcx.type_of(container).instantiate_identity().skip_norm_wip();
                j.str("self_ty", &ty_str(tcx, self_ty));
                if let Some(tr) = tcx.impl_opt_trait_ref(container) {
                    j.str("impl_trait", &path(tcx, tr.instantiate_identity().skip_norm_wip().def_id));
                }
                if let Some(ti) = item.trait_item_def_id() {
                    j.str("trait_item", &path(tcx, ti));
                }
            }
            DefKind::Trait => {
                j.str("in_trait", &path(tcx, container));
            }
            _ => {}
        }
    }
    let span = tcx.hir_body_owned_by(ldid).value.span;
    let def_span = tcx.def_span(did);
    let (file, lo) = file_line(tcx, def_span);
    j.str("file", &file);
    j.num("lo", lo as i128);
    {
        let sp = if span.from_expansion() { span.source_callsite() } else { span };
        j.num("hi", tcx.sess.source_map().lookup_char_pos(sp.hi()).line as i128);
    }
    j.boolean("expn", def_span.from_expansion());
    j.num("argc", body.arg_count as i128);
    if let Some(ck) = tcx.coroutine_kind(did) {
        j.str("coroutine", &format!("{:?}", ck));
    }
    // attributes of interest
    if tcx.is_const_fn(root) {
        j.boolean("const_fn", true);
    }

    // locals
    j.key("locals");
    j.arr_begin();
    for decl in body.local_decls.iter() {
        j.str_item(&ty_str(tcx, decl.ty));
    }
    j.arr_end();
    // user variable names
    j.key("names");
    j.obj_begin();
    for vdi in &body.var_debug_info {
        if let mir::VarDebugInfoContents::Place(p) = &vdi.value {
            if p.projection.is_empty() {
                j.str(&format!("{}", p.local.as_usize()), vdi.name.as_str());
            } else {
                // captured upvars: `_1.N` / `(*_1).N`
                let mut s = String::new();
                let _ = write!(s, "{}", p.local.as_usize());
                for e in p.projection.iter() {
                    match e {
                        PlaceElem::Deref => s.push_str(".*"),
                        PlaceElem::Field(f, _) => {
                            let _ = write!(s, ".{}", f.as_usize());
                        }
                        _ => s.push_str(".?"),
                    }
                }
                j.str(&s, vdi.name.as_str());
            }
        }
    }
    j.obj_end();

    // blocks
    j.key("blocks");
    cx.blocks(&mut j);

    // promoted constants (`&Enum::Variant`, `&[..]`): small bodies whose `_0` is the value
    j.key("promoted");
    j.arr_begin();
    {
        let (_, promoted) = tcx.mir_promoted(ldid);
        if !promoted.is_stolen() {
            let promoted = promoted.borrow();
            for pb in promoted.iter() {
                let pcx = Cx { tcx, body: pb, def: ldid, env: cx.env };
                j.obj_begin();
                j.key("locals");
                j.arr_begin();
                for decl in pb.local_decls.iter() {
                    j.str_item(&ty_str(tcx, decl.ty));
                }
                j.arr_end();
                j.key("blocks");
                pcx.blocks(&mut j);
                j.obj_end();
            }
        }
    }
    j.arr_end();

    // string literal tokens inside the body span (format strings etc.)
    j.key("lits");
    j.arr_begin();
    {
        let sp = if span.from_expansion() { span.source_callsite() } else { span };
        if let Ok(snip) = tcx.sess.source_map().span_to_snippet(sp) {
            let mut pos = 0usize;
            for tok in rustc_lexer::tokenize(&snip, rustc_lexer::FrontmatterAllowed::No) {
                let len = tok.len as usize;
                if let rustc_lexer::TokenKind::Literal { kind, .. } = tok.kind {
                    let text = &snip[pos..pos + len];
                    match kind {
                        rustc_lexer::LiteralKind::Str { terminated: true } => {
                            j.str_item(&unescape(&text[1..text.len() - 1]));
                        }
                        rustc_lexer::LiteralKind::RawStr { n_hashes: Some(n) } => {
                            let n = n as usize;
                            if text.len() >= 3 + 2 * n {
                                j.str_item(&text[2 + n..text.len() - 1 - n]);
                            }
                        }
                        rustc_lexer::LiteralKind::ByteStr { terminated: true } => {
                            j.str_item(&unescape(&text[2..text.len() - 1]));
                        }
                        rustc_lexer::LiteralKind::Char { terminated: true } => {
                            j.str_item(&format!("'{}'", unescape(&text[1..text.len() - 1])));
                        }
                        rustc_lexer::LiteralKind::Byte { terminated: true } => {
                            j.str_item(&format!("b'{}'", unescape(&text[2..text.len() - 1])));
                        }
                        _ => {}
                    }
                }
                pos += len;
            }
        }
    }
    j.arr_end();
    j.end_into(out);
}

fn unescape(s: &str) -> String {
    let mut out = String::new();
    let mut it = s.chars().peekable();
    while let Some(c) = it.next() {
        if c != '\\' {
            out.push(c);
            continue;
        }
        match it.next() {
            Some('n') => out.push('\n'),
            Some('r') => out.push('\r'),
            Some('t') => out.push('\t'),
            Some('0') => out.push('\0'),
            Some('\\') => out.push('\\'),
            Some('"') => out.push('"'),
            Some('\'') => out.push('\''),
            Some('x') => {
                let h: String = it.by_ref().take(2).collect();
                if let Ok(v) = u8::from_str_radix(&h, 16) {
                    out.push(v as char);
                }
            }
            Some('u') => {
                let mut h = String::new();
                if it.peek() == Some(&'{') {
                    it.next();
                    while let Some(c) = it.next() {
                        if c == '}' {
                            break;
                        }
                        h.push(c);
                    }
                }
                if let Some(c) = u32::from_str_radix(&h, 16).ok().and_then(char::from_u32) {
                    out.push(c);
                }
            }
            Some('\n') => {
                // line continuation: skip leading whitespace
                while matches!(it.peek(), Some(c) if c.is_whitespace()) {
                    it.next();
                }
            }
            Some(o) => {
                out.push('\\');
                out.push(o);
            }
            None => out.push('\\'),
        }
    }
    out
}

impl<'a, 'tcx> Cx<'a, 'tcx> {
    fn blocks(&self, j: &mut J) {
        let tcx = self.tcx;
        j.arr_begin();
        for (_bb, data) in self.body.basic_blocks.iter_enumerated() {
            j.obj_begin();
            if data.is_cleanup {
                j.boolean("c", true);
            }
            j.key("s");
            j.arr_begin();
            for st in &data.statements {
                match &st.kind {
                    StatementKind::Assign(bx) => {
                        let (lhs, rv) = &**bx;
                        j.obj_begin();
                        j.key("l");
                        self.place(j, lhs);
                        j.key("r");
                        self.rvalue(j, rv);
                        j.num("ln", line_of(tcx, st.source_info.span) as i128);
                        j.obj_end();
                    }
                    StatementKind::SetDiscriminant { place, variant_index } => {
                        j.obj_begin();
                        j.key("l");
                        self.place(j, place);
                        j.key("r");
                        j.obj_begin();
                        j.str("k", "setdiscr");
                        j.num("v", variant_index.as_usize() as i128);
                        j.obj_end();
                        j.obj_end();
                    }
                    _ => {}
                }
            }
            j.arr_end();
            j.key("t");
            self.terminator(j, data.terminator());
            j.obj_end();
        }
        j.arr_end();

    }

    fn place(&self, j: &mut J, p: &Place<'tcx>) {
        let tcx = self.tcx;
        j.arr_begin();
        j.num_item(p.local.as_usize() as i128);
        let mut pty = mir::PlaceTy::from_ty(self.body.local_decls[p.local].ty);
        for elem in p.projection.iter() {
            match elem {
                PlaceElem::Deref => j.str_item("*"),
                PlaceElem::Field(f, _) => {
                    j.arr_begin();
                    j.str_item("f");
                    j.num_item(f.as_usize() as i128);
                    match pty.ty.kind() {
                        ty::Adt(adt, _) => {
                            let vidx = pty.variant_index.unwrap_or(rustc_abi::FIRST_VARIANT);
                            let v = adt.variant(vidx);
                            if let Some(fd) = v.fields.get(f) {
                                j.str_item(fd.name.as_str());
                            } else {
                                j.str_item("?");
                            }
                            j.str_item(&path(tcx, adt.did()));
                            j.str_item(v.name.as_str());
                        }
                        ty::Closure(def, _) | ty::Coroutine(def, _) | ty::CoroutineClosure(def, _) => {
                            j.str_item("^upvar");
                            j.str_item(&path(tcx, *def));
                        }
                        ty::Tuple(_) => {
                            j.str_item("^tuple");
                        }
                        _ => {
                            j.str_item("?");
                        }
                    }
                    j.arr_end();
                }
                PlaceElem::Downcast(name, vidx) => {
                    j.arr_begin();
                    j.str_item("d");
                    match name {
                        Some(n) => j.str_item(n.as_str()),
                        None => j.str_item(&format!("{}", vidx.as_usize())),
                    }
                    j.arr_end();
                }
                PlaceElem::Index(_) | PlaceElem::ConstantIndex { .. } | PlaceElem::Subslice { .. } => {
                    j.str_item("[]")
                }
                _ => j.str_item("~"), // OpaqueCast / UnwrapUnsafeBinder: type-level only
            }
            pty = pty.projection_ty(tcx, elem);
        }
        j.arr_end();
    }

    fn operand(&self, j: &mut J, op: &Operand<'tcx>) {
        j.arr_begin();
        match op {
            Operand::Copy(p) => {
                j.str_item("c");
                self.place(j, p);
            }
            Operand::Move(p) => {
                j.str_item("m");
                self.place(j, p);
            }
            Operand::Constant(c) => {
                j.str_item("k");
                self.constant(j, &c.const_);
            }
            #[allow(unreachable_patterns)]
            _ => j.str_item("?"),
        }
        j.arr_end();
    }

    fn constant(&self, j: &mut J, c: &Const<'tcx>) {
        let tcx = self.tcx;
        let ty = c.ty();
        j.obj_begin();
        match ty.kind() {
            ty::FnDef(did, args) => {
                j.str("fn", &path(tcx, *did));
                if !args.is_empty() {
                    j.str("g", &fix_crate(tcx, with_crate_prefix!(with_no_trimmed_paths!(format!("{:?}", args)))));
                }
            }
            ty::Closure(did, _) => {
                j.str("closure", &path(tcx, *did));
            }
            _ => {
                j.str("ty", &ty_str(tcx, ty));
                match c {
                    Const::Val(v, _) => emit_const_value(tcx, j, *v, ty),
                    Const::Unevaluated(uv, _) => {
                        j.str("item", &path(tcx, uv.def));
                        if let Some(p) = uv.promoted {
                            j.num("promoted", p.as_usize() as i128);
                        }
                    }
                    Const::Ty(_, ct) => {
                        // pattern constants (`match s { "t" => .. }`, `'x' => ..`) are type-level valtrees
                        let mut done = false;
                        if let Some(v) = ct.try_to_value() {
                            if let Some(bytes) = v.try_to_raw_bytes(tcx) {
                                j.str("v", &String::from_utf8_lossy(bytes));
                                j.boolean("slice", true);
                                done = true;
                            } else if let Some(si) = v.try_to_leaf() {
                                emit_const_value(tcx, j, ConstValue::Scalar(mir::interpret::Scalar::Int(si)), ty);
                                done = true;
                            }
                        }
                        if !done {
                            j.str("tyconst", &format!("{:?}", ct).chars().take(60).collect::<String>());
                        }
                    }
                }
            }
        }
        j.obj_end();
    }

    fn rvalue(&self, j: &mut J, rv: &Rvalue<'tcx>) {
        let tcx = self.tcx;
        j.obj_begin();
        match rv {
            Rvalue::Use(op, ..) => {
                j.str("k", "use");
                j.key("o");
                self.operand(j, op);
            }
            Rvalue::Ref(_, bk, p) => {
                j.str("k", "ref");
                j.str(
                    "m",
                    match bk {
                        BorrowKind::Shared => "shared",
                        BorrowKind::Mut { .. } => "mut",
                        BorrowKind::Fake(_) => "fake",
                    },
                );
                j.key("p");
                self.place(j, p);
            }
            Rvalue::RawPtr(_, p) => {
                j.str("k", "rawptr");
                j.key("p");
                self.place(j, p);
            }
            Rvalue::Cast(ck, op, ty) => {
                j.str("k", "cast");
                j.str("ck", &format!("{:?}", ck));
                j.key("o");
                self.operand(j, op);
                j.str("ty", &ty_str(tcx, *ty));
            }
            Rvalue::BinaryOp(op, bx) => {
                j.str("k", "bin");
                j.str("op", &format!("{:?}", op));
                j.key("a");
                self.operand(j, &bx.0);
                j.key("b");
                self.operand(j, &bx.1);
            }
            Rvalue::UnaryOp(op, o) => {
                j.str("k", "un");
                j.str("op", &format!("{:?}", op));
                j.key("o");
                self.operand(j, o);
            }
            Rvalue::Discriminant(p) => {
                j.str("k", "discr");
                j.key("p");
                self.place(j, p);
                let pty = p.ty(self.body, tcx).ty;
                if let ty::Adt(adt, _) = pty.kind() {
                    if adt.is_enum() {
                        j.str("adt", &path(tcx, adt.did()));
                        j.key("vs");
                        j.arr_begin();
                        for (vidx, v) in adt.variants().iter_enumerated() {
                            j.arr_begin();
                            j.num_item(adt.discriminant_for_variant(tcx, vidx).val as i128);
                            j.str_item(v.name.as_str());
                            j.arr_end();
                        }
                        j.arr_end();
                    }
                }
            }
            Rvalue::Aggregate(ak, ops) => {
                j.str("k", "agg");
                match &**ak {
                    AggregateKind::Adt(did, vidx, _, _, active_field) => {
                        let adt = tcx.adt_def(*did);
                        let v = adt.variant(*vidx);
                        j.str("ak", "adt");
                        j.str("adt", &path(tcx, *did));
                        j.str("v", v.name.as_str());
                        j.key("fields");
                        j.arr_begin();
                        if let Some(af) = active_field {
                            j.str_item(v.fields[*af].name.as_str());
                        } else {
                            for f in v.fields.iter() {
                                j.str_item(f.name.as_str());
                            }
                        }
                        j.arr_end();
                    }
                    AggregateKind::Tuple => j.str("ak", "tuple"),
                    AggregateKind::Array(_) => j.str("ak", "array"),
                    AggregateKind::Closure(did, _) => {
                        j.str("ak", "closure");
                        j.str("def", &path(tcx, *did));
                    }
                    AggregateKind::Coroutine(did, _) => {
                        j.str("ak", "coroutine");
                        j.str("def", &path(tcx, *did));
                    }
                    AggregateKind::CoroutineClosure(did, _) => {
                        j.str("ak", "coroutine_closure");
                        j.str("def", &path(tcx, *did));
                    }
                    AggregateKind::RawPtr(..) => j.str("ak", "rawptr"),
                }
                j.key("o");
                j.arr_begin();
                for o in ops.iter() {
                    self.operand(j, o);
                }
                j.arr_end();
            }
            Rvalue::Repeat(op, _) => {
                j.str("k", "repeat");
                j.key("o");
                self.operand(j, op);
            }
            Rvalue::CopyForDeref(p) => {
                j.str("k", "use");
                j.key("o");
                j.arr_begin();
                j.str_item("c");
                self.place(j, p);
                j.arr_end();
            }
            Rvalue::ThreadLocalRef(did) => {
                j.str("k", "tls");
                j.str("def", &path(tcx, *did));
            }
            _ => {
                j.str("k", "?");
                j.str("dbg", &format!("{:?}", rv).chars().take(80).collect::<String>());
            }
        }
        j.obj_end();
    }

    fn bb(&self, j: &mut J, key: &str, bb: BasicBlock) {
        j.num(key, bb.as_usize() as i128);
    }

    fn unwind(&self, j: &mut J, u: &UnwindAction) {
        if let UnwindAction::Cleanup(bb) = u {
            self.bb(j, "u", *bb);
        }
    }

    fn terminator(&self, j: &mut J, term: &mir::Terminator<'tcx>) {
        let tcx = self.tcx;
        j.obj_begin();
        match &term.kind {
            TerminatorKind::Goto { target } => {
                j.str("k", "goto");
                self.bb(j, "t", *target);
            }
            TerminatorKind::SwitchInt { discr, targets } => {
                j.str("k", "switch");
                j.key("o");
                self.operand(j, discr);
                j.key("vals");
                j.arr_begin();
                for (v, t) in targets.iter() {
                    j.arr_begin();
                    j.num_item(v as i128);
                    j.num_item(t.as_usize() as i128);
                    j.arr_end();
                }
                j.arr_end();
                self.bb(j, "else", targets.otherwise());
                j.num("ln", line_of(tcx, term.source_info.span) as i128);
            }
            TerminatorKind::Return => j.str("k", "return"),
            TerminatorKind::Unreachable => j.str("k", "unreachable"),
            TerminatorKind::UnwindResume => j.str("k", "resume"),
            TerminatorKind::UnwindTerminate(_) => j.str("k", "terminate"),
            TerminatorKind::Drop { place, target, unwind, .. } => {
                j.str("k", "drop");
                j.key("p");
                self.place(j, place);
                self.bb(j, "t", *target);
                self.unwind(j, unwind);
            }
            TerminatorKind::Call { func, args, destination, target, unwind, fn_span, .. } => {
                j.str("k", "call");
                j.key("f");
                self.callee(j, func);
                j.key("a");
                j.arr_begin();
                for a in args.iter() {
                    self.operand(j, &a.node);
                }
                j.arr_end();
                j.key("d");
                self.place(j, destination);
                if let Some(t) = target {
                    self.bb(j, "t", *t);
                }
                self.unwind(j, unwind);
                j.num("ln", line_of(tcx, *fn_span) as i128);
                if term.source_info.span.from_expansion() {
                    j.boolean("expn", true);
                    if let Some(m) = term.source_info.span.macro_backtrace().next() {
                        j.str("macro", &format!("{}", m.kind.descr()));
                        if let rustc_span::ExpnKind::Macro(_, name) = m.kind {
                            j.str("macro_name", name.as_str());
                        }
                    }
                }
            }
            TerminatorKind::TailCall { func, args, .. } => {
                j.str("k", "tailcall");
                j.key("f");
                self.callee(j, func);
                j.key("a");
                j.arr_begin();
                for a in args.iter() {
                    self.operand(j, &a.node);
                }
                j.arr_end();
            }
            TerminatorKind::Assert { target, unwind, cond, expected, msg } => {
                j.str("k", "assert");
                self.bb(j, "t", *target);
                self.unwind(j, unwind);
                j.key("o");
                self.operand(j, cond);
                j.boolean("expected", *expected);
                j.str("msg", &format!("{:?}", msg).chars().take(60).collect::<String>());
            }
            TerminatorKind::Yield { resume, drop, value, resume_arg } => {
                j.str("k", "yield");
                self.bb(j, "t", *resume);
                if let Some(d) = drop {
                    self.bb(j, "drop", *d);
                }
                j.key("o");
                self.operand(j, value);
                j.key("d");
                self.place(j, resume_arg);
            }
            TerminatorKind::CoroutineDrop => j.str("k", "coroutine_drop"),
            TerminatorKind::FalseEdge { real_target, imaginary_target } => {
                j.str("k", "goto");
                self.bb(j, "t", *real_target);
                self.bb(j, "imag", *imaginary_target);
            }
            TerminatorKind::FalseUnwind { real_target, .. } => {
                j.str("k", "goto");
                self.bb(j, "t", *real_target);
                j.boolean("loop", true);
            }
            TerminatorKind::InlineAsm { targets, .. } => {
                j.str("k", "asm");
                j.key("ts");
                j.arr_begin();
                for t in targets.iter() {
                    j.num_item(t.as_usize() as i128);
                }
                j.arr_end();
            }
        }
        j.obj_end();
    }

    fn callee(&self, j: &mut J, func: &Operand<'tcx>) {
        let tcx = self.tcx;
        j.obj_begin();
        let fty = func.ty(self.body, tcx);
        match fty.kind() {
            ty::FnDef(did, args) => {
                let did = *did;
                j.str("d", &path(tcx, did));
                if !args.is_empty() {
                    j.str("g", &fix_crate(tcx, with_crate_prefix!(with_no_trimmed_paths!(format!("{:?}", args)))));
                }
                // trait item?
                let mut is_trait_item = false;
                if let Some(assoc) = tcx.opt_associated_item(did) {
                    if let Some(tr) = assoc.trait_container(tcx) {
                        is_trait_item = true;
                        j.str("trait", &path(tcx, tr));
                        if let Some(self_ty) = args.types().next() {
                            j.str("self", &ty_str(tcx, self_ty));
                        }
                    } else if let Some(imp) = assoc.impl_container(tcx) {
                        let self_ty = tcx.type_of(imp).instantiate_identity().skip_norm_wip();
                        j.str("self", &ty_str(tcx, self_ty));
                    }
                }
                // resolution
                match Instance::try_resolve(tcx, self.env, did, args) {
                    Ok(Some(inst)) => match inst.def {
                        ty::InstanceKind::Item(d) => {
                            if d != did || !is_trait_item {
                                j.str("r", &path(tcx, d));
                            } else if tcx.is_mir_available(d) || d.is_local() {
                                // resolved to the trait's own default body
                                if tcx.defaultness(d).has_value() {
                                    j.str("r", &path(tcx, d));
                                }
                            }
                        }
                        ty::InstanceKind::Virtual(d, _) => {
                            j.boolean("virt", true);
                            let _ = d;
                        }
                        ty::InstanceKind::ClosureOnceShim { call_once: _, .. } => {
                            if let Some(ty::Closure(cd, _)) = args.types().next().map(|t| t.kind()) {
                                j.str("r", &path(tcx, *cd));
                            }
                        }
                        ty::InstanceKind::FnPtrShim(..) => j.boolean("fnptr", true),
                        ty::InstanceKind::Intrinsic(d) => j.str("r", &path(tcx, d)),
                        other => {
                            j.str("shim", &format!("{:?}", other).chars().take(40).collect::<String>());
                        }
                    },
                    Ok(None) => {}
                    Err(_) => {}
                }
            }
            _ => {
                j.str("indirect", &ty_str(tcx, fty));
                j.key("op");
                self.operand(j, func);
            }
        }
        j.obj_end();
    }
}

#[allow(dead_code)]
fn _unused(_: Span, _: LocalDefId, _: &Cx<'_, '_>) {}
