"""Fact extraction: run the rustc_private driver over $REPO and load its JSONL
output into a SQLite fact base keyed by a hash of the analysed sources.

Nothing here executes jj code: `cargo +nightly check` type-checks the workspace
and the driver dumps MIR facts while rustc is at it.
"""
import fcntl
import hashlib
import json
import os
import shutil
import sqlite3
import subprocess
import sys
import time
import zlib

VERIF = os.path.dirname(os.path.dirname(os.path.abspath(__file__)))
CACHE = os.path.join(VERIF, ".cache")
DRIVER_DIR = os.path.join(VERIF, "driver")
DRIVER_BIN = os.path.join(DRIVER_DIR, "target", "debug", "jjv-driver")
TARGET_DIR = os.path.join(CACHE, "target")
SCHEMA_VERSION = "12"

# floors derived from the counts measured on the pinned tree (308 / 8140 / 6536)
BODY_FLOORS = {"jj_core": 300, "jj_lib": 7800, "jj_cli": 6200}

SRC_EXT = (".rs", ".pest", ".proto", ".toml", ".json", ".lock")


def log(msg):
    print(f"[facts] {msg}", file=sys.stderr, flush=True)


def sysroot_lib():
    out = subprocess.run(["rustc", "+nightly", "--print", "sysroot"], capture_output=True, text=True, check=True)
    return os.path.join(out.stdout.strip(), "lib")


def build_driver():
    """Build the driver if its binary is missing or older than its sources."""
    srcs = [os.path.join(DRIVER_DIR, "src", f) for f in os.listdir(os.path.join(DRIVER_DIR, "src"))]
    srcs.append(os.path.join(DRIVER_DIR, "Cargo.toml"))
    if os.path.exists(DRIVER_BIN) and all(os.path.getmtime(s) <= os.path.getmtime(DRIVER_BIN) for s in srcs):
        return
    log("building driver")
    env = dict(os.environ, CARGO_NET_OFFLINE="true")
    r = subprocess.run(["cargo", "+nightly", "build", "--offline"], cwd=DRIVER_DIR, env=env,
                       capture_output=True, text=True)
    if r.returncode != 0:
        sys.stderr.write(r.stdout + r.stderr)
        raise SystemExit("FACTS-ERROR: driver build failed")


def source_hash(repo, features=""):
    h = hashlib.sha256()
    h.update(SCHEMA_VERSION.encode())
    h.update(features.encode())
    with open(DRIVER_BIN, "rb") as f:
        h.update(hashlib.sha256(f.read()).digest())
    files = []
    for top in ("core", "lib", "cli"):
        for dp, dns, fns in os.walk(os.path.join(repo, top)):
            dns[:] = sorted(d for d in dns if d not in ("target", ".git", "snapshots", "docs"))
            for fn in sorted(fns):
                if fn.endswith(SRC_EXT):
                    files.append(os.path.join(dp, fn))
    for fn in ("Cargo.toml", "Cargo.lock"):
        files.append(os.path.join(repo, fn))
    for p in files:
        h.update(os.path.relpath(p, repo).encode())
        h.update(b"\0")
        try:
            with open(p, "rb") as f:
                h.update(hashlib.sha256(f.read()).digest())
        except OSError:
            h.update(b"<missing>")
    return h.hexdigest()[:32], len(files)


def run_driver(repo, out_dir, cargo_args=("-p", "jj-core", "-p", "jj-lib", "-p", "jj-cli")):
    os.makedirs(out_dir, exist_ok=True)
    for f in os.listdir(out_dir):
        os.unlink(os.path.join(out_dir, f))
    # cargo's freshness cache would skip the wrapper: forget the members' fingerprints
    fp = os.path.join(TARGET_DIR, "debug", ".fingerprint")
    if os.path.isdir(fp):
        for d in os.listdir(fp):
            if d.startswith(("jj-lib-", "jj-core-", "jj-cli-")):
                shutil.rmtree(os.path.join(fp, d), ignore_errors=True)
    env = dict(os.environ)
    env.update({
        "LD_LIBRARY_PATH": sysroot_lib() + ":" + env.get("LD_LIBRARY_PATH", ""),
        "RUSTFLAGS": "-Zmir-opt-level=0 -Awarnings",
        "RUSTC_WORKSPACE_WRAPPER": DRIVER_BIN,
        "JJV_FACTS_DIR": out_dir,
        "CARGO_TARGET_DIR": TARGET_DIR,
        "CARGO_NET_OFFLINE": "true",
    })
    env.pop("RUSTC_WRAPPER", None)
    t = time.time()
    r = subprocess.run(["cargo", "+nightly", "check", "--offline", "--lib", *cargo_args], cwd=repo, env=env,
                       capture_output=True, text=True)
    if r.returncode != 0:
        sys.stderr.write(r.stdout[-4000:] + r.stderr[-8000:])
        raise SystemExit("FACTS-ERROR: cargo check with the driver failed (does the tree compile?)")
    log(f"cargo check + driver: {time.time() - t:.1f}s")


def place_str(p):
    return p


class Loader:
    def __init__(self, dbpath):
        self.db = sqlite3.connect(dbpath)
        self.db.executescript("""
        PRAGMA journal_mode=OFF; PRAGMA synchronous=OFF;
        CREATE TABLE meta(k TEXT PRIMARY KEY, v TEXT);
        CREATE TABLE fn(id TEXT PRIMARY KEY, crate TEXT, kind TEXT, root TEXT, parent TEXT, vis TEXT,
                        impl TEXT, self_ty TEXT, impl_trait TEXT, trait_item TEXT, in_trait TEXT,
                        file TEXT, lo INT, hi INT, expn INT, coroutine TEXT, argc INT, nblocks INT);
        CREATE TABLE body(id TEXT PRIMARY KEY, z BLOB);
        CREATE TABLE decl(id TEXT PRIMARY KEY, crate TEXT, vis TEXT, trait TEXT);
        CREATE TABLE adt(id TEXT PRIMARY KEY, crate TEXT, kind TEXT, vis TEXT, file TEXT, line INT);
        CREATE TABLE adt_variant(adt TEXT, idx INT, name TEXT, discr TEXT, ctor_vis TEXT);
        CREATE TABLE adt_field(adt TEXT, variant TEXT, idx INT, name TEXT, ty TEXT, vis TEXT);
        CREATE TABLE const(id TEXT PRIMARY KEY, crate TEXT, ty TEXT, vis TEXT, v TEXT);
        CREATE TABLE impl(id TEXT, crate TEXT, self_ty TEXT, trait TEXT, trait_ref TEXT, file TEXT, line INT, expn INT);
        CREATE TABLE impl_item(impl TEXT, trait TEXT, self_ty TEXT, impl_item TEXT, trait_item TEXT);
        CREATE TABLE call(caller TEXT, root TEXT, bb INT, decl TEXT, res TEXT, virt INT, trait TEXT, self_ty TEXT,
                          nargs INT, line INT, expn INT, macro TEXT, cleanup INT, indirect TEXT);
        CREATE TABLE field_access(fn TEXT, root TEXT, bb INT, adt TEXT, variant TEXT, field TEXT, kind TEXT,
                                  base INT, line INT);
        CREATE TABLE aggregate(fn TEXT, root TEXT, bb INT, ak TEXT, adt TEXT, variant TEXT, def TEXT, nops INT, line INT);
        CREATE TABLE lit(fn TEXT, root TEXT, v TEXT);
        CREATE TABLE str_const(fn TEXT, root TEXT, bb INT, v TEXT, item TEXT);
        CREATE TABLE fnref(fn TEXT, root TEXT, bb INT, target TEXT);
        CREATE TABLE const_ref(fn TEXT, root TEXT, bb INT, item TEXT);
        CREATE TABLE enum_const(fn TEXT, root TEXT, bb INT, adt TEXT, variant TEXT);
        CREATE TABLE summary(crate TEXT, bodies INT, stolen INT);
        CREATE TABLE stolen(id TEXT);
        """)
        self.rows = {k: [] for k in ("fn", "body", "decl", "adt", "adt_variant", "adt_field", "const", "impl",
                                     "impl_item", "call", "field_access", "aggregate", "lit", "str_const", "fnref", "const_ref", "enum_const",
                                     "summary", "stolen")}

    # -- per-record handlers -------------------------------------------------
    def add(self, r):
        t = r["t"]
        R = self.rows
        if t == "body":
            self.add_body(r)
        elif t == "adt":
            R["adt"].append((r["id"], r["crate"], r["kind"], r["vis"], r["file"], r["line"]))
            for i, v in enumerate(r["variants"]):
                R["adt_variant"].append((r["id"], i, v["n"], str(v.get("discr", i)), v.get("ctor_vis")))
                for fi, f in enumerate(v["fields"]):
                    R["adt_field"].append((r["id"], v["n"], fi, f["n"], f["ty"], f["vis"]))
        elif t == "const":
            v = r.get("v")
            R["const"].append((r["id"], r["crate"], r["ty"], r["vis"], None if v is None else json.dumps(v)))
        elif t == "impl":
            R["impl"].append((r["id"], r["crate"], r["self_ty"], r.get("trait"), r.get("trait_ref"), r["file"],
                              r["line"], int(r["expn"])))
            for it in r["items"]:
                R["impl_item"].append((r["id"], r.get("trait"), r["self_ty"], it["impl_item"], it.get("trait_item")))
        elif t == "decl":
            R["decl"].append((r["id"], r["crate"], r["vis"], r.get("trait")))
        elif t == "summary":
            R["summary"].append((r["crate"], r["bodies"], r["stolen"]))
        elif t == "stolen":
            R["stolen"].append((r["id"],))

    def add_body(self, r):
        R = self.rows
        fid, root = r["id"], r["root"]
        R["fn"].append((fid, r["crate"], r["kind"], root, r.get("parent"), r["vis"], r.get("impl"), r.get("self_ty"),
                        r.get("impl_trait"), r.get("trait_item"), r.get("in_trait"), r["file"], r["lo"], r["hi"],
                        int(r["expn"]), r.get("coroutine"), r["argc"], len(r["blocks"])))
        R["body"].append((fid, zlib.compress(json.dumps(r, separators=(",", ":")).encode(), 1)))
        for v in set(r["lits"]):
            R["lit"].append((fid, root, v))
        fa = R["field_access"]

        def place_reads(p, bb, kind, ln):
            # p = [local, proj...]; every Field projection on an ADT is an access of that field.
            n = len(p)
            for i in range(1, n):
                e = p[i]
                if isinstance(e, list) and e[0] == "f" and len(e) >= 5:
                    k = kind if i == n - 1 else ("through" if kind in ("read", "move", "shared") else kind + "-through")
                    fa.append((fid, root, bb, e[3], e[4], e[2], k, p[0], ln))

        def operand_reads(o, bb, ln):
            if o[0] == "c":
                place_reads(o[1], bb, "read", ln)
            elif o[0] == "m":
                place_reads(o[1], bb, "move", ln)
            elif o[0] == "k":
                c = o[1]
                if isinstance(c.get("v"), str) and c.get("slice"):
                    R["str_const"].append((fid, root, bb, c["v"], c.get("item")))
                if "fn" in c:
                    R["fnref"].append((fid, root, bb, c["fn"]))
                if "item" in c and "promoted" not in c:
                    R["const_ref"].append((fid, root, bb, c["item"]))
                if "bytes" in c:
                    R["str_const"].append((fid, root, bb, c["bytes"], "(bytes)"))
                if "variant" in c:
                    R["enum_const"].append((fid, root, bb, c.get("adt"), c["variant"]))

        for pr in r.get("promoted", []):
            for pb in pr["blocks"]:
                for s in pb["s"]:
                    rv = s["r"]
                    for o in ([rv.get("o")] if rv["k"] in ("use", "cast") else (rv.get("o", []) if rv["k"] == "agg" else [])):
                        if o and o[0] == "k":
                            operand_reads(o, -1, s.get("ln", 0))
                    if rv["k"] == "agg":
                        R["aggregate"].append((fid, root, -1, rv["ak"], rv.get("adt"), rv.get("v"), rv.get("def"),
                                               len(rv["o"]), s.get("ln", 0)))
        for bb, b in enumerate(r["blocks"]):
            for s in b["s"]:
                ln = s.get("ln", 0)
                place_reads(s["l"], bb, "write", ln)
                rv = s["r"]
                k = rv["k"]
                if k in ("use", "cast", "un", "repeat"):
                    operand_reads(rv["o"], bb, ln)
                elif k == "bin":
                    operand_reads(rv["a"], bb, ln)
                    operand_reads(rv["b"], bb, ln)
                elif k == "ref":
                    place_reads(rv["p"], bb, {"shared": "shared", "mut": "mut", "fake": "fake"}[rv["m"]], ln)
                elif k == "rawptr":
                    place_reads(rv["p"], bb, "mut", ln)
                elif k == "discr":
                    place_reads(rv["p"], bb, "read", ln)
                elif k == "agg":
                    for o in rv["o"]:
                        operand_reads(o, bb, ln)
                    R["aggregate"].append((fid, root, bb, rv["ak"], rv.get("adt"), rv.get("v"), rv.get("def"),
                                           len(rv["o"]), ln))
            t = b["t"]
            tk = t["k"]
            if tk in ("call", "tailcall"):
                f = t["f"]
                ln = t.get("ln", 0)
                for a in t["a"]:
                    operand_reads(a, bb, ln)
                if "d" in t:
                    place_reads(t["d"], bb, "write", ln)
                R["call"].append((fid, root, bb, f.get("d"), f.get("r"), int(bool(f.get("virt"))), f.get("trait"),
                                  f.get("self"), len(t["a"]), ln, int(bool(t.get("expn"))), t.get("macro_name"),
                                  int(bool(b.get("c"))), f.get("indirect")))
                if "op" in f:
                    operand_reads(f["op"], bb, ln)
            elif tk == "switch":
                operand_reads(t["o"], bb, t.get("ln", 0))
            elif tk == "drop":
                pass
            elif tk in ("assert", "yield"):
                operand_reads(t["o"], bb, 0)

    def flush(self):
        db = self.db
        for name, rows in self.rows.items():
            if not rows:
                continue
            q = "INSERT OR REPLACE INTO %s VALUES (%s)" % (name, ",".join("?" * len(rows[0])))
            db.executemany(q, rows)
            rows.clear()

    def finish(self, meta):
        self.flush()
        self.db.executescript("""
        CREATE INDEX call_caller ON call(caller);
        CREATE INDEX call_root ON call(root);
        CREATE INDEX call_res ON call(res);
        CREATE INDEX call_decl ON call(decl);
        CREATE INDEX fn_root ON fn(root);
        CREATE INDEX fa_adt ON field_access(adt, field);
        CREATE INDEX fa_fn ON field_access(fn);
        CREATE INDEX agg_adt ON aggregate(adt);
        CREATE INDEX agg_root ON aggregate(root);
        CREATE INDEX lit_root ON lit(root);
        CREATE INDEX fnref_root ON fnref(root);
        CREATE INDEX const_ref_root ON const_ref(root);
        CREATE INDEX impl_item_t ON impl_item(trait_item);
        CREATE INDEX impl_item_i ON impl_item(impl_item);
        CREATE INDEX adt_field_a ON adt_field(adt);
        """)
        for k, v in meta.items():
            self.db.execute("INSERT OR REPLACE INTO meta VALUES (?,?)", (k, str(v)))
        self.db.commit()
        self.db.close()


def load_jsonl(out_dir, dbpath, meta, wanted=("jj_core", "jj_lib", "jj_cli"), floors=BODY_FLOORS):
    t = time.time()
    tmp = dbpath + ".tmp"
    if os.path.exists(tmp):
        os.unlink(tmp)
    ld = Loader(tmp)
    seen = set()
    for fn in sorted(os.listdir(out_dir)):
        if not fn.endswith(".jsonl"):
            continue
        with open(os.path.join(out_dir, fn)) as f:
            for line in f:
                r = json.loads(line)
                ld.add(r)
                if r["t"] == "summary":
                    seen.add(r["crate"])
                    fl = floors.get(r["crate"], 0)
                    if r["bodies"] < fl:
                        raise SystemExit(f"FACTS-ERROR: only {r['bodies']} bodies for {r['crate']} (floor {fl})")
        ld.flush()
    missing = [c for c in wanted if c not in seen]
    if missing:
        raise SystemExit(f"FACTS-ERROR: no fact file for {missing} (driver did not run for them)")
    ld.finish(meta)
    os.replace(tmp, dbpath)
    log(f"loaded facts into sqlite: {time.time() - t:.1f}s")


def ensure_facts(repo="/repo"):
    """Return the path of the SQLite fact base for the current sources of `repo`."""
    repo = os.path.abspath(repo)
    os.makedirs(CACHE, exist_ok=True)
    lock = open(os.path.join(CACHE, "lock"), "w")
    fcntl.flock(lock, fcntl.LOCK_EX)
    try:
        build_driver()
        h, nfiles = source_hash(repo)
        d = os.path.join(CACHE, "facts", h)
        dbpath = os.path.join(d, "facts.sqlite")
        if os.path.exists(dbpath):
            os.utime(d)
            return dbpath
        os.makedirs(d, exist_ok=True)
        log(f"no cached facts for source state {h} ({nfiles} files): extracting")
        out_dir = os.path.join(d, "jsonl")
        run_driver(repo, out_dir)
        tmpdb = dbpath + ".partial"
        if os.path.exists(tmpdb):
            os.remove(tmpdb)
        load_jsonl(out_dir, tmpdb, {"hash": h, "repo": repo, "files": nfiles, "time": time.time()})
        os.replace(tmpdb, dbpath)      # an interrupted load never leaves a usable-looking fact base behind
        shutil.rmtree(out_dir, ignore_errors=True)
        prune_cache(keep=24)
        return dbpath
    finally:
        fcntl.flock(lock, fcntl.LOCK_UN)
        lock.close()


def prune_cache(keep):
    root = os.path.join(CACHE, "facts")
    ds = [os.path.join(root, d) for d in os.listdir(root)]
    ds.sort(key=os.path.getmtime, reverse=True)
    for d in ds[keep:]:
        shutil.rmtree(d, ignore_errors=True)


if __name__ == "__main__":
    print(ensure_facts(sys.argv[1] if len(sys.argv) > 1 else "/repo"))
