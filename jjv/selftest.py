"""Checker self-test: apply each seeded single-edit patch (mutants/<prop>/*.patch,
seeded/<id>/patch.diff for that property) to a scratch copy of the repository,
extract facts there, and require the property's rules to report a violation.
The scratch copy lives outside /repo and /verif and is removed afterwards."""
import json
import os
import shutil
import subprocess
import sys
import tempfile

VERIF = os.path.dirname(os.path.dirname(os.path.abspath(__file__)))


def patches_for(prop):
    out = []
    d = os.path.join(VERIF, "mutants", prop)
    if os.path.isdir(d):
        out += [os.path.join(d, f) for f in sorted(os.listdir(d)) if f.endswith(".patch")]
    sd = os.path.join(VERIF, "seeded")
    if os.path.isdir(sd):
        for name in sorted(os.listdir(sd)):
            meta = os.path.join(sd, name, "meta.json")
            pf = os.path.join(sd, name, "patch.diff")
            if os.path.exists(meta) and os.path.exists(pf):
                try:
                    m = json.load(open(meta))
                except Exception:
                    continue
                if m.get("property") == prop and m.get("detected_by_static_check", True):
                    out.append(pf)
    return out


def make_scratch(repo):
    base = tempfile.mkdtemp(prefix="jjv-scratch-", dir=os.environ.get("JJV_SCRATCH_BASE", "/tmp"))
    dst = os.path.join(base, "repo")
    subprocess.run(["rsync", "-a", "--exclude", "/target", "--exclude", "/.git",
                    "--exclude", "/web", "--exclude", "/demos", repo.rstrip("/") + "/", dst], check=True)
    return base, dst


def run_selftest(prop, repo, only=None):
    patches = patches_for(prop)
    if only:
        patches = [p for p in patches if only in p]
    results = []
    if not patches:
        return results
    base, scratch = make_scratch(repo)
    evdir = os.path.join(base, "evidence")
    try:
        for pf in patches:
            name = os.path.relpath(pf, VERIF)
            ap = subprocess.run(["git", "apply", "--whitespace=nowarn", pf], cwd=scratch, capture_output=True, text=True)
            if ap.returncode != 0:
                results.append({"patch": name, "status": "skipped-does-not-apply", "detail": ap.stderr[-300:]})
                continue
            env = dict(os.environ, JJV_EVIDENCE_DIR=evdir)
            r = subprocess.run([sys.executable, os.path.join(VERIF, "check"), prop, "--repo", scratch, "--tier", "quick"],
                               capture_output=True, text=True, env=env)
            fired = [l.strip() for l in r.stdout.splitlines() if l.strip().startswith("FAILED")]
            expect_silent = os.path.basename(pf).startswith("ok_")
            violated = r.returncode == 1 and "VIOLATION property=" in r.stdout
            if "FACTS-ERROR" in (r.stdout + r.stderr):
                status = "skipped-does-not-compile"
            elif expect_silent:
                status = "silent-as-expected" if (r.returncode == 0 and not violated) else "FALSE-ALARM"
            elif violated:
                status = "detected"
            else:
                status = "MISSED"
            results.append({"patch": name, "status": status, "fired": fired[:6],
                            "detail": (r.stderr[-300:] if status not in ("detected", "silent-as-expected") else "")})
            subprocess.run(["git", "apply", "-R", "--whitespace=nowarn", pf], cwd=scratch, check=True)
    finally:
        shutil.rmtree(base, ignore_errors=True)
    return results


if __name__ == "__main__":
    import argparse
    ap = argparse.ArgumentParser()
    ap.add_argument("prop")
    ap.add_argument("--repo", default="/repo")
    ap.add_argument("--only")
    a = ap.parse_args()
    res = run_selftest(a.prop, a.repo, only=a.only)
    for r in res:
        print(r["status"], r["patch"])
        for f in r.get("fired", []):
            print("    ", f[:260])
        if r.get("detail"):
            print("    ", r["detail"])
    sys.exit(1 if any(r["status"] in ("MISSED", "FALSE-ALARM") for r in res) else 0)
