"""Obligation bookkeeping, evidence files, VIOLATION / KNOWN-FINDING lines."""
import json
import os
import sys
import time

VERIF = os.path.dirname(os.path.dirname(os.path.abspath(__file__)))


class Ctx:
    def __init__(self, prop, tier, F, repo):
        self.prop = prop
        self.tier = tier
        self.F = F
        self.repo = repo
        self.obs = []
        self.sites = 0
        self.samples = []
        self.functions = set()
        self.info = {}
        self.t0 = time.time()
        self.clauses = []
        self.not_decided = []
        self.assumptions = []
        self.explanation = ""

    # -- recording ---------------------------------------------------------
    def ob(self, rule, key, ok, detail="", where=None, sample=None, sites=1):
        """one obligation = one rule instance.  key must not contain line numbers."""
        self.obs.append({"rule": rule, "key": key, "ok": bool(ok), "detail": detail, "where": where, "sites": sites})
        self.sites += sites
        n_rule = sum(1 for s in self.samples if s.get("rule") == rule)
        if sample is not None and len(self.samples) < 80:
            self.samples.append(sample)
        elif ok and n_rule < 4 and len(self.samples) < 80 and detail and not key.startswith("ANCHOR:"):
            self.samples.append({"rule": rule, "instance": key, "detail": detail[:400], "where": where})
        return ok

    def anchor(self, rule, what, found, floor=1):
        """fail closed when an anchor of a rule is missing or below its floor"""
        n = found if isinstance(found, int) else len(found)
        ok = n >= floor
        self.ob(rule, f"ANCHOR:{what}", ok, f"found {n}, floor {floor}" if not ok else f"{n} (floor {floor})", sites=max(n, 1))
        return ok

    def fn_seen(self, *ids):
        self.functions.update(i for i in ids if i)

    # -- finishing ---------------------------------------------------------
    def finish(self):
        known = load_known(self.prop)
        violations = []
        known_hits = []
        for o in self.obs:
            if o["ok"]:
                continue
            k = f"{o['rule']}|{o['key']}"
            if k in known:
                known_hits.append((k, known[k]))
            else:
                violations.append(o)
        evdir = os.environ.get("JJV_EVIDENCE_DIR") or os.path.join(VERIF, "evidence")
        os.makedirs(evdir, exist_ok=True)
        ev_path = os.path.join(evdir, f"{self.prop}.json")
        rules = sorted({o["rule"] for o in self.obs})
        distinct = len({(o["rule"], o["key"]) for o in self.obs if o["sites"] > 0})
        ev = {
            "property_id": self.prop,
            "tier": self.tier,
            "seed": int(os.environ.get("VERIF_SEED", "0") or 0),
            "level": "other",
            "coverage": {
                "explanation": self.explanation,
                "obligations": len(self.obs),
                "discharged": sum(1 for o in self.obs if o["ok"]),
                "evaluations": self.sites,
                "distinct_nontrivial": distinct,
                "rule": "one obligation per rule instance (function/callee/field/table entry); evaluations = program "
                        "sites (call sites, field accesses, CFG paths, table rows) examined; distinct_nontrivial = "
                        "distinct (rule, instance) pairs that matched at least one site",
                "samples": self.samples[:80] or [{"note": "no instance matched"}],
                "all_obligations": [{"rule": o["rule"], "instance": o["key"], "ok": o["ok"], "detail": o["detail"][:240],
                                     "where": o["where"]} for o in self.obs],
                "rules": rules,
                "functions_analysed": len(self.functions),
                "decided_clauses": self.clauses,
                "not_decided": self.not_decided,
                "known_findings": [k for k, _ in known_hits],
                "facts_db": os.path.basename(os.path.dirname(self.F.dbpath)) if self.F else None,
                "info": self.info,
                "exhaustive": True,
            },
            "assumptions": self.assumptions,
            "wall_s": round(time.time() - self.t0, 3),
            "violations": len(violations),
        }
        with open(ev_path, "w") as f:
            json.dump(ev, f, indent=1, default=str)
        print(f"[{self.prop}] tier={self.tier} obligations={len(self.obs)} discharged={ev['coverage']['discharged']} "
              f"sites={self.sites} functions={len(self.functions)} wall={ev['wall_s']}s")
        for k, what in known_hits:
            print(f"KNOWN-FINDING: property={self.prop} {what} [{k}]")
        if violations:
            vpath = os.path.join(evdir, f"{self.prop}.violation.json")
            with open(vpath, "w") as f:
                json.dump({"property": self.prop, "violations": violations}, f, indent=1, default=str)
            for o in violations:
                print(f"  FAILED {o['rule']} [{o['key']}] {o['detail']} @ {o['where']}")
            print(f"VIOLATION property={self.prop} replay={vpath}")
            return 1
        stale = os.path.join(evdir, f"{self.prop}.violation.json")
        if os.path.exists(stale):
            os.remove(stale)
        return 0


def load_known(prop):
    path = os.path.join(VERIF, "known_findings.json")
    if not os.path.exists(path):
        return {}
    with open(path) as f:
        data = json.load(f)
    out = {}
    for e in data.get("known", []):
        if e["property"] == prop:
            out[e["key"]] = e["what"]
    return out
