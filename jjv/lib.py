"""Analysis library over the fact base: bodies, CFGs with edge nodes, path
queries (set-dominance, must-pass-through), call graph with class-hierarchy
closure of trait calls, cones, and a provenance slicer that produces terms.

All of it is static: it reads facts dumped from MIR; it never runs jj code.
"""
import json
import re
import sqlite3
import zlib
from collections import defaultdict, deque

# ---------------------------------------------------------------------------
# helpers on raw MIR JSON


def is_place(x):
    return isinstance(x, list) and x and isinstance(x[0], int)


def op_place(o):
    """place of a copy/move operand, else None"""
    if o[0] in ("c", "m"):
        return o[1]
    return None


def op_const(o):
    if o[0] == "k":
        return o[1]
    return None


def place_local(p):
    return p[0]


def place_is_local(p):
    return len(p) == 1


def place_fields(p):
    """list of (adt, variant, field) for Field projections on ADTs"""
    return [(e[3], e[4], e[2]) for e in p[1:] if isinstance(e, list) and e[0] == "f" and len(e) >= 5]


def show_place(p, names=None):
    s = f"_{p[0]}"
    if names and str(p[0]) in names:
        s = names[str(p[0])]
    for e in p[1:]:
        if e == "*":
            s = f"(*{s})"
        elif e == "[]":
            s += "[]"
        elif isinstance(e, list) and e[0] == "f":
            s += "." + (e[2] if not e[2].startswith("^") and e[2] != "?" else str(e[1]))
        elif isinstance(e, list) and e[0] == "d":
            s = f"({s} as {e[1]})"
    return s


class CallSite:
    __slots__ = ("body", "bb", "decl", "res", "virt", "trait", "self_ty", "args", "dest", "target", "line", "expn",
                 "macro", "generics", "indirect", "cleanup")

    def __init__(self, body, bb, t, cleanup):
        f = t["f"]
        self.body = body
        self.bb = bb
        self.decl = f.get("d")
        self.res = f.get("r")
        self.virt = bool(f.get("virt"))
        self.trait = f.get("trait")
        self.self_ty = f.get("self")
        self.generics = f.get("g", "")
        self.indirect = f.get("indirect")
        self.args = t["a"]
        self.dest = t.get("d")
        self.target = t.get("t")
        self.line = t.get("ln", 0)
        self.expn = bool(t.get("expn"))
        self.macro = t.get("macro_name")
        self.cleanup = cleanup

    @property
    def names(self):
        return [n for n in (self.res, self.decl) if n]

    def matches(self, pats):
        return any(name_matches(n, pats) for n in self.names)

    def where(self):
        return f"{self.body.file}:{self.line}"

    def key(self):
        return f"{self.body.id}->{self.res or self.decl}"

    def __repr__(self):
        return f"<call {self.res or self.decl} in {self.body.id} bb{self.bb} {self.where()}>"


_re_cache = {}


def name_matches(name, pats):
    if name is None:
        return False
    if isinstance(pats, str):
        pats = (pats,)
    for p in pats:
        if p.startswith("re:"):
            r = _re_cache.get(p)
            if r is None:
                r = _re_cache[p] = re.compile(p[3:])
            if r.search(name):
                return True
        elif p.startswith("suffix:"):
            if name.endswith(p[7:]):
                return True
        elif name == p:
            return True
    return False


# ---------------------------------------------------------------------------


class Body:
    """One MIR body with an edge-split CFG.

    Nodes 0..n-1 are basic blocks.  Every SwitchInt edge gets an extra node
    (so that "on the true edge of test T" is a node that can dominate), found
    with edge_node(bb, value) where value is an int or 'else'.
    Cleanup blocks, unwind edges and coroutine-drop edges are not part of the
    graph: rules talk about normal control flow.
    """

    def __init__(self, rec):
        self.rec = rec
        self.id = rec["id"]
        self.root = rec["root"]
        self.file = rec["file"]
        self.blocks = rec["blocks"]
        self.locals = rec["locals"]
        self.names = rec.get("names", {})
        self.argc = rec["argc"]
        self.n = len(self.blocks)
        self._build()

    # -- graph ---------------------------------------------------------------
    def _build(self):
        n = self.n
        succ = defaultdict(list)
        self.edge_nodes = {}  # (bb, val) -> node
        self.edge_info = {}  # node -> (bb, val, target)
        nxt = n
        for i, b in enumerate(self.blocks):
            if b.get("c"):
                continue
            t = b["t"]
            k = t["k"]
            if k in ("goto", "drop", "assert", "yield"):
                succ[i].append(t["t"])
            elif k == "call":
                if "t" in t:
                    succ[i].append(t["t"])
            elif k == "switch":
                for v, tgt in t["vals"]:
                    e = nxt
                    nxt += 1
                    self.edge_nodes[(i, int(v))] = e
                    self.edge_info[e] = (i, int(v), tgt)
                    succ[i].append(e)
                    succ[e].append(tgt)
                e = nxt
                nxt += 1
                self.edge_nodes[(i, "else")] = e
                self.edge_info[e] = (i, "else", t["else"])
                succ[i].append(e)
                succ[e].append(t["else"])
            elif k == "asm":
                succ[i].extend(t.get("ts", []))
        self.N = nxt
        self.succ = succ
        pred = defaultdict(list)
        for a, bs in succ.items():
            for b in bs:
                pred[b].append(a)
        self.pred = pred
        self._reach = None
        self._dom = None
        self._calls = None
        self._defs = None

    def edge_node(self, bb, val):
        return self.edge_nodes.get((bb, val))

    def reachable_from(self, srcs, avoid=()):
        avoid = set(avoid)
        seen = set()
        dq = deque(s for s in srcs if s not in avoid)
        seen.update(dq)
        while dq:
            x = dq.popleft()
            for y in self.succ.get(x, ()):
                if y not in seen and y not in avoid:
                    seen.add(y)
                    dq.append(y)
        return seen

    @property
    def reachable(self):
        if self._reach is None:
            self._reach = self.reachable_from([0])
        return self._reach

    def path_avoiding(self, srcs, dsts, avoid=()):
        """A path (list of nodes) from some src to some dst that touches no node
        in `avoid` (src and dst themselves included in the test), or None."""
        avoid = set(avoid)
        dsts = set(dsts)
        prev = {}
        dq = deque()
        for s in srcs:
            if s in avoid or s in prev:
                continue
            prev[s] = None
            dq.append(s)
        while dq:
            x = dq.popleft()
            if x in dsts:
                path = []
                while x is not None:
                    path.append(x)
                    x = prev[x]
                return path[::-1]
            for y in self.succ.get(x, ()):
                if y not in prev and y not in avoid:
                    prev[y] = x
                    dq.append(y)
        return None

    def set_dominated(self, node, by):
        """True iff every entry->node path passes a node in `by` (node itself counts
        only if it is in `by`).  Unreachable nodes are vacuously dominated."""
        if node in by:
            return True
        return self.path_avoiding([0], [node], by) is None

    def after(self, node):
        """nodes strictly after `node` (its successors' reachable set)"""
        return self.reachable_from(self.succ.get(node, ()))

    def show_path(self, path):
        out = []
        for x in path:
            if x < self.n:
                t = self.blocks[x]["t"]
                if t["k"] == "call":
                    f = t["f"]
                    out.append(f"bb{x}:call {f.get('r') or f.get('d') or 'indirect'} @{t.get('ln')}")
                elif t["k"] == "return":
                    out.append(f"bb{x}:return")
            else:
                bb, v, tgt = self.edge_info[x]
                out.append(f"bb{bb}-[{v}]->bb{tgt}")
        return out

    # -- calls ---------------------------------------------------------------
    @property
    def calls(self):
        if self._calls is None:
            cs = []
            for i, b in enumerate(self.blocks):
                t = b["t"]
                if t["k"] in ("call", "tailcall"):
                    cs.append(CallSite(self, i, t, bool(b.get("c"))))
            self._calls = cs
        return self._calls

    def calls_to(self, pats, include_cleanup=False, reachable_only=True):
        out = []
        for c in self.calls:
            if c.cleanup and not include_cleanup:
                continue
            if reachable_only and not c.cleanup and c.bb not in self.reachable:
                continue
            if c.matches(pats):
                out.append(c)
        return out

    def return_blocks(self):
        return [i for i, b in enumerate(self.blocks) if b["t"]["k"] == "return" and not b.get("c") and i in self.reachable]

    # -- definitions of locals ----------------------------------------------
    @property
    def defs(self):
        """local -> list of (bb, idx|'T', kind, payload): whole-local definitions.
        partial[local] -> list of (bb, idx, place, rvalue) for projections written."""
        if self._defs is None:
            defs = defaultdict(list)
            partial = defaultdict(list)
            for i, b in enumerate(self.blocks):
                if b.get("c"):
                    continue
                for si, s in enumerate(b["s"]):
                    l = s["l"]
                    if len(l) == 1:
                        defs[l[0]].append((i, si, "assign", s["r"]))
                    else:
                        partial[l[0]].append((i, si, l, s["r"]))
                t = b["t"]
                if t["k"] == "call" and "d" in t:
                    d = t["d"]
                    if len(d) == 1:
                        defs[d[0]].append((i, "T", "call", t))
                    else:
                        partial[d[0]].append((i, "T", d, {"k": "callret", "t": t}))
                elif t["k"] == "yield":
                    d = t["d"]
                    if len(d) == 1:
                        defs[d[0]].append((i, "T", "yield", t))
            self._defs = (defs, partial)
        return self._defs

    def local_name(self, l):
        return self.names.get(str(l))

    def local_ty(self, l):
        return self.locals[l]

    # -- switch / branch helpers --------------------------------------------
    def switches(self):
        for i, b in enumerate(self.blocks):
            if b["t"]["k"] == "switch" and not b.get("c"):
                yield i, b["t"]

    def discr_source(self, bb):
        """For `switchInt(move _d)` where `_d = discriminant(P)` return (P, adt, variants{val:name});
        for a switch on a bool/int local return (place, None, None)."""
        t = self.blocks[bb]["t"]
        o = t["o"]
        p = op_place(o)
        if p is None:
            return None
        if len(p) == 1:
            for (dbb, si, kind, rv) in self.defs[0].get(p[0], ()):
                if kind == "assign" and rv["k"] == "discr":
                    vs = {int(v): n for v, n in rv.get("vs", [])}
                    return (rv["p"], rv.get("adt"), vs)
        return (p, None, None)

    def variant_edge(self, bb, variant):
        """edge node of switch at bb that is taken for enum variant `variant` (by name)"""
        ds = self.discr_source(bb)
        if not ds or not ds[2]:
            return None
        t = self.blocks[bb]["t"]
        listed = {int(v) for v, _ in t["vals"]}
        for val, name in ds[2].items():
            if name == variant:
                if val in listed:
                    return self.edge_node(bb, val)
                return self.edge_node(bb, "else")
        return None


# ---------------------------------------------------------------------------
# provenance terms

TRANSPARENT = (
    "re:^<.* as std::ops::Deref>::deref$", "std::ops::Deref::deref", "std::ops::DerefMut::deref_mut",
    "re:^<.* as std::ops::DerefMut>::deref_mut$",
    "re:^<.* as std::clone::Clone>::clone$", "std::clone::Clone::clone",
    "re:^<.* as std::borrow::Borrow<.*>>::borrow$", "std::borrow::Borrow::borrow",
    "re:^<.* as std::convert::AsRef<.*>>::as_ref$", "std::convert::AsRef::as_ref",
    "re:^<.* as std::convert::Into<.*>>::into$", "std::convert::Into::into",
    "re:^<.* as std::convert::From<.*>>::from$", "std::convert::From::from",
    "re:^<.* as std::borrow::ToOwned>::to_owned$", "std::borrow::ToOwned::to_owned",
    "std::pin::Pin::<Ptr>::new_unchecked", "std::pin::Pin::<Ptr>::new",
    "re:^<.* as std::future::IntoFuture>::into_future$", "std::future::IntoFuture::into_future",
    "re:^std::option::Option::<T>::(as_ref|as_deref|as_mut|cloned|copied|unwrap|expect)$",
    "re:^std::result::Result::<T, E>::(as_ref|unwrap|expect|map_err)$",
    "re:^std::boxed::Box::<T>::(new|pin)$", "re:^std::sync::Arc::<T>::new$", "re:^std::rc::Rc::<T>::new$",
    "re:^<.* as std::iter::IntoIterator>::into_iter$", "std::iter::IntoIterator::into_iter",
    "re:^std::slice::<impl \\[T\\]>::(iter|to_vec)$", "re:^std::vec::Vec::<T.*>::(as_slice|iter)$",
    "re:^std::path::(Path|PathBuf)::(as_path|to_path_buf)$",
    "re:^std::string::String::as_str$",
)


def T_unknown(why):
    return ("unknown", why)


def children(term):
    """direct sub-terms of a provenance term"""
    if not isinstance(term, tuple):
        return ()
    k = term[0]
    if k == "call":
        return tuple(term[2])
    if k in ("field", "variant", "await", "try", "index", "un", "cast", "partial"):
        return (term[1],)
    if k in ("alt", "tuple"):
        return tuple(term[1])
    if k == "agg":
        return tuple(term[3].values())
    if k == "bin":
        return (term[2], term[3])
    if k == "mut":
        return (term[1],) + tuple(term[2])
    return ()


def walk(term, seen=None, budget=None):
    """pre-order iteration over all sub-terms (shared sub-terms visited once)"""
    stack = [term]
    seen = set()
    n = 0
    while stack:
        t = stack.pop()
        if not isinstance(t, tuple):
            continue
        i = id(t)
        if i in seen:
            continue
        seen.add(i)
        n += 1
        if n > 200000:
            return
        yield t
        stack.extend(reversed(children(t)))


def term_calls(term, acc=None):
    """all ('call', name, args, site) nodes in a term"""
    return [t for t in walk(term) if t[0] == "call"]


def term_leaves(term, acc=None):
    """leaf nodes: param / const / fnconst / unknown / cycle / upvar / static / nullary calls"""
    out = []
    for t in walk(term):
        if t[0] in ("param", "const", "fnconst", "unknown", "cycle", "upvar", "static", "resume"):
            out.append(t)
        elif t[0] in ("call", "agg", "tuple") and not children(t):
            out.append(t)
    return out


def term_has_call(term, pats):
    return any(name_matches(c[1], pats) for c in term_calls(term))


def term_fields(term, acc=None):
    """all (adt, field) read anywhere in the term"""
    return {(t[2], t[3]) for t in walk(term) if t[0] == "field"}


def strip(term, extra=()):
    """Peel transparent wrappers (clone/deref/into/?/await/...) off the top of a term."""
    while isinstance(term, tuple):
        k = term[0]
        if k == "call" and term[2] and (name_matches(term[1], TRANSPARENT) or (extra and name_matches(term[1], extra))):
            term = term[2][0]
        elif k in ("try", "await", "cast"):
            term = term[1]
        elif k == "alt" and len(term[1]) == 1:
            term = term[1][0]
        else:
            break
    return term


def alts(term):
    """flatten top-level alternatives (after stripping)"""
    term = strip(term)
    if isinstance(term, tuple) and term[0] == "alt":
        out = []
        for a in term[1]:
            out.extend(alts(a))
        return out
    return [term]


def short(name):
    """shorten a def path for display"""
    if name is None:
        return "?"
    name = re.sub(r"::<[^<>]*(<[^<>]*>[^<>]*)*>", "", name)
    m = re.match(r"^<(.*) as (.*)>::(\w+)$", name)
    if m:
        return f"{m.group(1).split('::')[-1]}::{m.group(3)}"
    parts = name.split("::")
    return "::".join(parts[-2:]) if len(parts) > 1 else name


def show(term, depth=0):
    if not isinstance(term, tuple):
        return str(term)
    if depth > 12:
        return "…"
    k = term[0]
    d = depth + 1
    if k == "param":
        return f"param{term[1]}" + (f":{term[2]}" if term[2] else "")
    if k == "const":
        return f"const({term[1]!r})"
    if k == "fnconst":
        return f"fn:{short(term[1])}"
    if k == "call":
        return f"{short(term[1])}({', '.join(show(a, d) for a in term[2])})"
    if k == "field":
        return f"{show(term[1], d)}.{term[3]}"
    if k == "variant":
        return f"({show(term[1], d)} as {term[2]})"
    if k == "await":
        return f"{show(term[1], d)}.await"
    if k == "try":
        return f"{show(term[1], d)}?"
    if k == "index":
        return f"{show(term[1], d)}[]"
    if k == "alt":
        return "{" + " | ".join(show(a, d) for a in term[1]) + "}"
    if k == "agg":
        return f"{short(term[1])}" + (f"::{term[2]}" if term[2] else "") + "{" + ", ".join(
            f"{f}: {show(a, d)}" for f, a in term[3].items()) + "}"
    if k == "tuple":
        return "(" + ", ".join(show(a, d) for a in term[1]) + ")"
    if k == "bin":
        return f"({show(term[2], d)} {term[1]} {show(term[3], d)})"
    if k == "un":
        return f"{term[2]}({show(term[1], d)})"
    if k == "cast":
        return show(term[1], d)
    if k == "mut":
        return f"{show(term[1], d)}⟨{'; '.join(show(a, d) for a in term[2])}⟩"
    if k == "upvar":
        return f"upvar{term[2]}"
    if k == "partial":
        return f"partial({show(term[1], d)})"
    if k == "cycle":
        return "↺"
    if k == "resume":
        return "resume"
    if k == "static":
        return f"static:{short(term[1])}"
    if k == "unknown":
        return f"?{term[1]}"
    return str(term)


class Slicer:
    """Backward provenance of operands/places inside one body, as terms.
    Flow-insensitive over definitions of a local, except that a definition must
    be able to reach the use (CFG reachability) when a use point is given."""

    MAX_NODES = 1500

    def __init__(self, facts, body, cross_closure=True, with_mutators=False):
        self.F = facts
        self.b = body
        self.cross = cross_closure
        self.with_mut = with_mutators
        self.memo = {}
        self.nodes = 0
        self._mutators = None

    # public ------------------------------------------------------------
    def operand(self, o, at=None):
        if o[0] == "k":
            return self._const(o[1])
        if o[0] in ("c", "m"):
            return self.place(o[1], at)
        return T_unknown("operand")

    def place(self, p, at=None):
        base = self.local(p[0], at)
        return self._project(base, p[1:])

    def call_arg(self, call, i):
        if i >= len(call.args):
            return T_unknown("noarg")
        return self.operand(call.args[i], at=call.bb)

    # internals ---------------------------------------------------------
    def _const(self, c):
        if isinstance(c.get("promoted"), int) and not isinstance(c.get("promoted"), bool):
            pr = self.b.rec.get("promoted") or []
            i = c["promoted"]
            if i < len(pr):
                key = ("promoted", i)
                if key not in self.memo:
                    rec = {"id": f"{self.b.id}::promoted[{i}]", "root": self.b.root, "file": self.b.file,
                           "blocks": pr[i]["blocks"], "locals": pr[i]["locals"], "names": {}, "argc": 0,
                           "promoted": pr}
                    self.memo[key] = ("cycle",)
                    self.memo[key] = Slicer(self.F, Body(rec), cross_closure=False).local(0)
                return self.memo[key]
        if "fn" in c:
            return ("fnconst", c["fn"])
        if "closure" in c:
            return ("fnconst", c["closure"])
        if "v" in c:
            return ("const", c["v"])
        if "variant" in c:
            return ("agg", c.get("adt"), c["variant"], {})
        if "bytes" in c:
            return ("const", c["bytes"])
        if "item" in c:
            v = self.F.const_value(c["item"])
            if v is not None:
                return ("const", v)
            return ("static", c["item"])
        return ("const", c.get("ty", "?"))

    def _project(self, base, proj):
        t = base
        for e in proj:
            if e == "*" or e == "~":
                continue
            if e == "[]":
                t = ("index", t)
            elif isinstance(e, list) and e[0] == "d":
                t = ("variant", t, e[1])
            elif isinstance(e, list) and e[0] == "f":
                idx, name = e[1], e[2]
                if name == "^tuple":
                    tt = strip_refs(t)
                    if isinstance(tt, tuple) and tt[0] == "tuple" and idx < len(tt[1]):
                        t = tt[1][idx]
                    else:
                        t = ("field", t, "(tuple)", str(idx))
                elif name == "^upvar":
                    t = self._upvar(e[3], idx)
                else:
                    adt = e[3] if len(e) > 3 else "?"
                    tt = strip_refs(t)
                    # projection out of a known aggregate
                    if isinstance(tt, tuple) and tt[0] == "agg" and tt[1] == adt and name in tt[3]:
                        t = tt[3][name]
                    else:
                        t = self._simplify_field(("field", t, adt, name if name != "?" else str(idx)))
        return t

    def _simplify_field(self, t):
        # (x? as Continue).0 => x? ; (poll(x) as Ready).0 => x.await
        base = t[1]
        if isinstance(base, tuple) and base[0] == "variant":
            inner = base[1]
            if isinstance(inner, tuple):
                if inner[0] == "try" and base[2] == "Continue":
                    return inner
                if inner[0] == "await" and base[2] == "Ready":
                    return inner
                if inner[0] == "agg" and inner[2] == base[2] and t[3] in inner[3]:
                    return inner[3][t[3]]
        return t

    def _upvar(self, closure_def, idx):
        if not self.cross:
            return ("upvar", closure_def, idx)
        key = ("upvar", closure_def, idx)
        if key in self.memo:
            return self.memo[key]
        self.memo[key] = ("cycle",)
        res = ("upvar", closure_def, idx)
        fn = self.F.fn(closure_def)
        parent = fn and fn["parent"]
        if parent and closure_def == self.b.id:
            pb = self.F.body(parent)
            if pb is not None:
                ps = self.F.slicer(parent)
                found = []
                for i, blk in enumerate(pb.blocks):
                    for s in blk["s"]:
                        rv = s["r"]
                        if rv["k"] == "agg" and rv.get("def") == closure_def and idx < len(rv["o"]):
                            found.append(ps.operand(rv["o"][idx], at=i))
                if len(found) == 1:
                    res = found[0]
                elif found:
                    res = ("alt", found)
        self.memo[key] = res
        return res

    def local(self, l, at=None):
        key = ("L", l, at if (self._multi_def(l) or l in self.b.defs[1]) else None)
        if key in self.memo:
            return self.memo[key]
        self.nodes += 1
        if self.nodes > self.MAX_NODES:
            return T_unknown("depth")
        self.memo[key] = ("cycle",)
        t = self._local(l, at)
        self.memo[key] = t
        return t

    def _multi_def(self, l):
        return len(self.b.defs[0].get(l, ())) > 1

    def _local(self, l, at):
        b = self.b
        defs, partial = b.defs
        ds = defs.get(l, [])
        if 1 <= l <= b.argc and not ds:
            base = ("param", l, b.local_name(l) or "")
        elif not ds:
            if l in partial:
                # built field by field (e.g. `let mut x: T; x.a = ..`)
                base = ("agg", b.local_ty(l), None, {})
            else:
                base = T_unknown(f"nodef _{l}")
        else:
            cands = ds
            if at is not None and len(ds) > 1:
                reach = [d for d in ds if d[0] == at or at in b.reachable_from([d[0]])]
                if reach:
                    cands = reach
            ts = []
            for (bb, si, kind, payload) in cands:
                if kind == "assign":
                    ts.append(self._rvalue(payload, bb))
                elif kind == "call":
                    ts.append(self._call(payload, bb))
                elif kind == "yield":
                    ts.append(("resume",))
            if 1 <= l <= b.argc:
                ts.append(("param", l, b.local_name(l) or ""))
            base = ts[0] if len(ts) == 1 else ("alt", ts)
        # field-wise updates `l.f = v`
        pw = partial.get(l)
        if pw:
            upd = {}
            for (bb, si, place, rv) in pw:
                fs = [e for e in place[1:] if isinstance(e, list) and e[0] == "f"]
                if not fs:
                    continue
                if at is not None and bb != at and at not in b.reachable_from([bb]):
                    continue  # this field write cannot have happened yet at the use
                name = fs[0][2]
                if rv["k"] == "callret":
                    val = self._call(rv["t"], bb)
                else:
                    val = self._rvalue(rv, bb)
                if len(fs) > 1:
                    val = ("partial", val)
                upd.setdefault(name, []).append(val)
            sb = strip_refs(base)
            if isinstance(sb, tuple) and sb[0] == "agg":
                fields = dict(sb[3])
                for name, vals in upd.items():
                    old = fields.get(name)
                    allv = ([old] if old is not None else []) + vals
                    fields[name] = allv[0] if len(allv) == 1 else ("alt", allv)
                base = ("agg", sb[1], sb[2], fields)
            else:
                base = ("mut", base, [("agg", "(field-writes)", None,
                                       {n: (v[0] if len(v) == 1 else ("alt", v)) for n, v in upd.items()})])
        if self.with_mut:
            ms = self.mutators().get(l)
            if ms:
                calls = [self._call(t, bb) for (bb, t) in ms]
                base = ("mut", base, calls)
        return base

    def mutators(self):
        """local -> [(bb, call terminator)] for calls that receive `&mut local` (directly or via a temp)"""
        if self._mutators is None:
            b = self.b
            defs, _ = b.defs
            mutref = {}  # temp local -> referent local
            for l, ds in defs.items():
                if len(ds) == 1 and ds[0][2] == "assign":
                    rv = ds[0][3]
                    if rv["k"] == "ref" and rv["m"] == "mut":
                        p = rv["p"]
                        # only whole-value borrows: `&mut x.f` mutates one field (handled as a partial write)
                        if not any(isinstance(e, list) and e[0] == "f" for e in p[1:]):
                            mutref[l] = p[0]
            # follow reborrows `&mut *tmp`
            changed = True
            while changed:
                changed = False
                for t, r in list(mutref.items()):
                    if r in mutref and mutref[r] != r and mutref[t] != mutref[r]:
                        mutref[t] = mutref[r]
                        changed = True
            out = defaultdict(list)
            for i, blk in enumerate(b.blocks):
                t = blk["t"]
                if t["k"] != "call" or blk.get("c"):
                    continue
                for a in t["a"]:
                    p = op_place(a)
                    if p is not None and len(p) == 1 and p[0] in mutref:
                        tgt = mutref[p[0]]
                        d = t.get("d")
                        if not (d and len(d) == 1 and d[0] == tgt):
                            out[tgt].append((i, t))
            self._mutators = out
        return self._mutators

    def _rvalue(self, rv, bb):
        k = rv["k"]
        if k == "use":
            return self.operand(rv["o"], at=bb)
        if k == "ref" or k == "rawptr":
            return self.place(rv["p"], at=bb)
        if k == "cast":
            return ("cast", self.operand(rv["o"], at=bb))
        if k == "bin":
            return ("bin", rv["op"], self.operand(rv["a"], at=bb), self.operand(rv["b"], at=bb))
        if k == "un":
            return ("un", self.operand(rv["o"], at=bb), rv["op"])
        if k == "discr":
            return ("un", self.place(rv["p"], at=bb), "discriminant")
        if k == "agg":
            ak = rv["ak"]
            ops = [self.operand(o, at=bb) for o in rv["o"]]
            if ak == "adt":
                fields = rv.get("fields", [])
                return ("agg", rv["adt"], rv.get("v"), {(fields[i] if i < len(fields) else str(i)): ops[i]
                                                          for i in range(len(ops))})
            if ak == "tuple":
                return ("tuple", ops)
            if ak == "array":
                return ("call", "[array]", ops, None)
            if ak in ("closure", "coroutine", "coroutine_closure"):
                return ("call", "closure:" + rv.get("def", "?"), ops, None)
            return T_unknown("agg")
        if k == "repeat":
            return ("call", "[repeat]", [self.operand(rv["o"], at=bb)], None)
        if k == "tls":
            return ("static", rv["def"])
        return T_unknown(k)

    def _call(self, t, bb):
        f = t["f"]
        name = f.get("r") or f.get("d")
        args = [self.operand(a, at=bb) for a in t["a"]]
        if name is None:
            name = "indirect"
            if "op" in f:
                args = [self.operand(f["op"], at=bb)] + args
        decl = f.get("d")
        # idioms
        if decl == "std::ops::Try::branch" and args:
            return ("try", args[0])
        if decl in ("futures::Future::poll", "std::future::Future::poll") and args:
            return ("await", strip(args[0]))
        return ("call", name, args, (self.b.id, bb, t.get("ln", 0)))


def strip_refs(t):
    return t


# ---------------------------------------------------------------------------


class Facts:
    def __init__(self, dbpath):
        self.dbpath = dbpath
        self.db = sqlite3.connect(dbpath)
        self.db.row_factory = sqlite3.Row
        self._bodies = {}
        self._slicers = {}
        self._fn = None
        self._cg = None
        self._consts = None
        self._families = None

    def q(self, sql, args=()):
        return self.db.execute(sql, args).fetchall()

    # -- functions -------------------------------------------------------
    @property
    def fns(self):
        if self._fn is None:
            self._fn = {r["id"]: dict(r) for r in self.q("SELECT * FROM fn")}
        return self._fn

    def fn(self, fid):
        return self.fns.get(fid)

    def find_fns(self, pats, roots_only=False):
        out = []
        for fid, r in self.fns.items():
            if roots_only and r["root"] != fid:
                continue
            if name_matches(fid, pats):
                out.append(fid)
        return sorted(out)

    def body(self, fid):
        b = self._bodies.get(fid)
        if b is None:
            row = self.q("SELECT z FROM body WHERE id=?", (fid,))
            if not row:
                return None
            b = Body(json.loads(zlib.decompress(row[0]["z"])))
            self._bodies[fid] = b
        return b

    def slicer(self, fid, **kw):
        key = (fid, tuple(sorted(kw.items())))
        s = self._slicers.get(key)
        if s is None:
            s = self._slicers[key] = Slicer(self, self.body(fid), **kw)
        return s

    @property
    def families(self):
        """root -> [member fn ids] (the fn itself, its closures and async blocks)"""
        if self._families is None:
            fam = defaultdict(list)
            for fid, r in self.fns.items():
                fam[r["root"]].append(fid)
            self._families = fam
        return self._families

    def family(self, root):
        return sorted(self.families.get(root, []))

    def family_bodies(self, root):
        return [self.body(f) for f in self.family(root)]

    def root_of(self, fid):
        r = self.fns.get(fid)
        return r["root"] if r else None

    def const_value(self, item):
        if self._consts is None:
            self._consts = {r["id"]: (json.loads(r["v"]) if r["v"] is not None else None)
                            for r in self.q("SELECT id, v FROM const")}
        return self._consts.get(item)

    # -- call graph ------------------------------------------------------
    @property
    def cg(self):
        if self._cg is None:
            self._cg = CallGraph(self)
        return self._cg

    def family_calls(self, root, pats, include_cleanup=False):
        out = []
        for b in self.family_bodies(root):
            out.extend(b.calls_to(pats, include_cleanup=include_cleanup))
        return out

    def all_calls_to(self, pats, crates=None):
        """CallSites anywhere in the workspace whose declared or resolved callee matches."""
        rows = self.q("SELECT DISTINCT caller FROM call WHERE cleanup=0")
        # narrow with SQL when patterns are exact
        exact = [p for p in ((pats,) if isinstance(pats, str) else pats) if not p.startswith(("re:", "suffix:"))]
        if len(exact) == len((pats,) if isinstance(pats, str) else pats):
            ph = ",".join("?" * len(exact))
            rows = self.q(f"SELECT DISTINCT caller FROM call WHERE decl IN ({ph}) OR res IN ({ph})", exact + exact)
        else:
            cand = set()
            for r in self.q("SELECT DISTINCT decl, res FROM call"):
                if name_matches(r["decl"], pats) or name_matches(r["res"], pats):
                    cand.add((r["decl"], r["res"]))
            callers = set()
            for d, rs in cand:
                for r in self.q("SELECT DISTINCT caller FROM call WHERE decl IS ? AND res IS ?", (d, rs)):
                    callers.add(r["caller"])
            rows = [{"caller": c} for c in callers]
        out = []
        for r in rows:
            fid = r["caller"]
            if crates and self.fns[fid]["crate"] not in crates:
                continue
            out.extend(self.body(fid).calls_to(pats))
        out.sort(key=lambda c: (c.body.id, c.bb))
        return out


class CallGraph:
    """Family-level call graph.  Nodes are root fn ids of the workspace crates."""

    def __init__(self, F):
        self.F = F
        fns = F.fns
        impls = defaultdict(set)  # trait item -> impl items
        for r in F.q("SELECT trait_item, impl_item FROM impl_item WHERE trait_item IS NOT NULL"):
            impls[r["trait_item"]].add(r["impl_item"])
        self.impls = impls
        edges = defaultdict(set)  # root -> callee roots
        direct = defaultdict(set)  # statically resolved calls only (no class-hierarchy closure)
        for r in F.q("SELECT caller, root, decl, res, virt, trait FROM call WHERE cleanup=0"):
            for tgt, kind in self.targets(r["decl"], r["res"], r["virt"], r["trait"]):
                troot = fns[tgt]["root"]
                edges[r["root"]].add(troot)
                if kind == "direct":
                    direct[r["root"]].add(troot)
        self.direct = direct
        # address-taken fn items (`.map(Self::f)`) and closures are part of their family already
        for r in F.q("SELECT root, target FROM fnref"):
            t = r["target"]
            if t in fns:
                edges[r["root"]].add(fns[t]["root"])
            elif t in impls:
                for i in impls[t]:
                    if i in fns:
                        edges[r["root"]].add(fns[i]["root"])
        self.edges = edges
        rev = defaultdict(set)
        for a, bs in edges.items():
            for b in bs:
                rev[b].add(a)
        self.rev = rev

    def targets(self, decl, res, virt, trait):
        """workspace fn ids a call may reach: resolved callee, else CHA over workspace impls"""
        fns = self.F.fns
        out = []
        if res and res in fns:
            out.append((res, "direct"))
            return out
        if res and not virt:
            return out  # resolved to a function outside the workspace
        if decl:
            if trait:
                for i in self.impls.get(decl, ()):
                    if i in fns:
                        out.append((i, "cha"))
                if decl in fns:
                    out.append((decl, "default"))
            elif decl in fns:
                out.append((decl, "direct"))
        return out

    def cone(self, roots, cut=(), crates=None, max_depth=None, direct_only=False):
        """families reachable from `roots` without entering a family in `cut`.
        direct_only: follow statically resolved calls only (under-approximates dyn/generic dispatch; used where the
        class-hierarchy closure would connect everything to everything, e.g. command cones)"""
        fns = self.F.fns
        edges = self.direct if direct_only else self.edges
        cut = set(cut)
        seen = {}
        dq = deque()
        for r in roots:
            if r in fns and r not in seen:
                seen[r] = 0
                dq.append(r)
        while dq:
            x = dq.popleft()
            if max_depth is not None and seen[x] >= max_depth:
                continue
            for y in edges.get(x, ()):
                if y in seen or y in cut:
                    continue
                if crates and fns[y]["crate"] not in crates:
                    continue
                seen[y] = seen[x] + 1
                dq.append(y)
        return seen

    def callers(self, root):
        return self.rev.get(root, set())

    def path(self, src, dst, cut=()):
        cut = set(cut)
        prev = {src: None}
        dq = deque([src])
        while dq:
            x = dq.popleft()
            if x == dst:
                p = []
                while x is not None:
                    p.append(x)
                    x = prev[x]
                return p[::-1]
            for y in self.edges.get(x, ()):
                if y not in prev and y not in cut:
                    prev[y] = x
                    dq.append(y)
        return None


# ---------------------------------------------------------------------------
# higher-level helpers used by the rules


def norm(term, depth=0):
    """Normal form for comparing two provenance terms: transparent wrappers,
    `?`, `.await`, casts and call-site identities are dropped."""
    if depth > 40 or not isinstance(term, tuple):
        return term
    term = strip(term)
    if not isinstance(term, tuple):
        return term
    k = term[0]
    d = depth + 1
    if k == "call":
        return ("call", term[1], tuple(norm(a, d) for a in term[2]))
    if k == "field":
        return ("field", norm(term[1], d), term[2], term[3])
    if k in ("variant",):
        return (k, norm(term[1], d), term[2])
    if k in ("index",):
        return (k, norm(term[1], d))
    if k == "un":
        return ("un", norm(term[1], d), term[2])
    if k == "alt":
        xs = []
        for a in term[1]:
            na = norm(a, d)
            if na not in xs:
                xs.append(na)
        return xs[0] if len(xs) == 1 else ("alt", tuple(xs))
    if k == "agg":
        return ("agg", term[1], term[2], tuple(sorted((f, norm(a, d)) for f, a in term[3].items())))
    if k == "tuple":
        return ("tuple", tuple(norm(a, d) for a in term[1]))
    if k == "bin":
        return ("bin", term[1], norm(term[2], d), norm(term[3], d))
    if k == "mut":
        return ("mut", norm(term[1], d), tuple(norm(a, d) for a in term[2]))
    if k == "param":
        return ("param", term[1])
    return term


CHECK_WRAPPERS = ("re:::map_err$", "re:::context$", "re:::with_context$", "re:::map$", "re:::inspect_err$",
                  "re:::block_on$")


def _is_result_of(term, body, call):
    t = strip(term, extra=CHECK_WRAPPERS)
    return isinstance(t, tuple) and t[0] == "call" and t[3] and t[3][0] == body.id and t[3][1] == call.bb


def find_ok_nodes(F, body, call):
    """CFG nodes that are only reached when the Result/Option produced by `call` was a success:
    the Continue edge of a `?` applied to it (possibly after map_err/await/into wrappers), the return
    block of unwrap()/expect() on it, and the Ok/Some arm of a match on it."""
    sl = F.slicer(body.id)
    out = set()
    for t in body.calls:
        if t.cleanup or not t.args:
            continue
        if t.decl == "std::ops::Try::branch":
            if _is_result_of(sl.operand(t.args[0], at=t.bb), body, call):
                edge = _switch_edge_on(body, t.dest, t.target, "Continue")
                if edge is not None:
                    out.add(edge)
        elif name_matches(t.decl, ("re:^std::(result::Result::<T, E>|option::Option::<T>)::(unwrap|expect)$",)):
            if t.target is not None and _is_result_of(sl.operand(t.args[0], at=t.bb), body, call):
                out.add(t.target)
    for bb, t in body.switches():
        if bb not in body.reachable:
            continue
        ds = body.discr_source(bb)
        if not ds or not ds[2]:
            continue
        if ds[1] not in ("std::result::Result", "std::option::Option"):
            continue
        if _is_result_of(sl.place(ds[0], at=bb), body, call):
            e = body.variant_edge(bb, "Ok" if ds[1].endswith("Result") else "Some")
            if e is not None:
                out.add(e)
    return out


def find_try_edge(F, body, call):
    """one success node for `call` (see find_ok_nodes) or None"""
    nodes = find_ok_nodes(F, body, call)
    return min(nodes) if nodes else None


def _switch_edge_on(body, place, start_bb, variant):
    """starting at block start_bb follow gotos to the switch on discriminant of `place`; return variant edge"""
    bb = start_bb
    seen = set()
    while bb is not None and bb not in seen:
        seen.add(bb)
        t = body.blocks[bb]["t"]
        if t["k"] == "switch":
            ds = body.discr_source(bb)
            if ds and ds[0] and place and ds[0][0] == place[0]:
                return body.variant_edge(bb, variant)
            return None
        if t["k"] == "goto":
            bb = t["t"]
        else:
            return None
    return None


def bool_edges(F, body, call):
    """(true_edge_nodes, false_edge_nodes) of every switch whose operand derives
    from the bool result of `call` by copies/moves and `!`."""
    trues, falses = [], []
    sl = F.slicer(body.id)
    for bb, t in body.switches():
        if bb not in body.reachable:
            continue
        p = op_place(t["o"])
        if p is None:
            continue
        term = sl.place(p, at=bb)
        neg = False
        while True:
            term = strip(term)
            if isinstance(term, tuple) and term[0] == "un" and term[2] == "Not":
                neg = not neg
                term = term[1]
                continue
            break
        if isinstance(term, tuple) and term[0] == "call" and term[3] and term[3][0] == body.id and term[3][1] == call.bb:
            e0 = body.edge_node(bb, 0)  # value 0 = false
            e1 = body.edge_node(bb, "else")
            if e0 is None:
                continue
            if neg:
                e0, e1 = e1, e0
            falses.append(e0)
            trues.append(e1)
    return trues, falses


def callee_reaches(F, call, pats, cut=(), crates=None):
    """does the call itself match, or any function in the cone of its workspace targets call something matching?"""
    if call.matches(pats):
        return True
    cg = F.cg
    tg = [F.fns[t]["root"] for t, _ in cg.targets(call.decl, call.res, call.virt, call.trait)]
    if not tg:
        return False
    cone = cg.cone(tg, cut=cut, crates=crates)
    return cone_calls(F, cone, pats)


_cone_call_cache = {}


def cone_calls(F, cone, pats):
    """does any family in `cone` contain a (non-cleanup) call matching pats?  returns list of (root, callee)"""
    key = id(F)
    idx = _cone_call_cache.get(key)
    if idx is None:
        idx = defaultdict(set)
        for r in F.q("SELECT root, decl, res FROM call WHERE cleanup=0"):
            if r["decl"]:
                idx[r["root"]].add(r["decl"])
            if r["res"]:
                idx[r["root"]].add(r["res"])
        _cone_call_cache[key] = idx
    hits = []
    for root in cone:
        for n in idx.get(root, ()):
            if name_matches(n, pats):
                hits.append((root, n))
    return hits


def impls_of(F, trait_item, crates=("jj_lib", "jj_cli", "jj_core")):
    """workspace impl methods of a trait method"""
    out = []
    for i in F.cg.impls.get(trait_item, ()):
        if i in F.fns and F.fns[i]["crate"] in crates:
            out.append(i)
    return sorted(out)


def ok_exit_nodes(F, body):
    """Blocks in which the value that becomes the Ok/normal return value is
    produced: definitions that flow by plain copies into `_0` and are not
    Err(..)/from_residual.  Returns (ok_nodes, err_nodes, other_nodes)."""
    defs, _ = body.defs
    ok, err, other = [], [], []
    seen = set()
    work = [0]
    while work:
        l = work.pop()
        if l in seen:
            continue
        seen.add(l)
        for (bb, si, kind, payload) in defs.get(l, ()):
            if bb not in body.reachable:
                continue
            if kind == "assign":
                rv = payload
                if rv["k"] == "use":
                    p = op_place(rv["o"])
                    if p is not None and len(p) == 1:
                        work.append(p[0])
                        continue
                    other.append(bb)
                elif rv["k"] == "agg" and rv.get("adt") == "std::result::Result":
                    (ok if rv.get("v") == "Ok" else err).append(bb)
                else:
                    other.append(bb)
            elif kind == "call":
                d = payload["f"].get("d")
                if d == "std::ops::FromResidual::from_residual":
                    err.append(bb)
                else:
                    other.append(bb)
    return ok, err, other


def bodies_with(F, root, pats):
    """bodies of a family that contain a reachable non-cleanup call matching pats"""
    return [b for b in F.family_bodies(root) if b.calls_to(pats)]


def check_order(ctx, rule, root, a_pats, b_pats, checked=True, a_name=None, b_name=None, start=None, weak=False):
    """T-DOM in family `root` (A and B in the same body).
    default : every entry->B path passes A (its `?` Continue edge when checked).
    start=S : only paths that pass a call matching S are constrained (conditional protocol:
              once S happened, B requires a successful A).
    weak    : A may be skipped, but B never precedes A, and once A was called B requires A's success.
    """
    F = ctx.F
    a_name = a_name or short(a_pats if isinstance(a_pats, str) else a_pats[0])
    b_name = b_name or short(b_pats if isinstance(b_pats, str) else b_pats[0])
    bs = bodies_with(F, root, b_pats)
    if not ctx.anchor(rule, f"{root}: calls to {b_name}", bs, 1):
        return False
    allok = True
    for b in bs:
        ctx.fn_seen(b.id)
        As = b.calls_to(a_pats)
        Bs = b.calls_to(b_pats)
        if not ctx.anchor(rule, f"{root}: calls to {a_name} next to {b_name}", As, 1):
            allok = False
            continue
        if checked:
            doms = set()
            for a in As:
                doms |= find_ok_nodes(F, b, a)
        else:
            doms = {a.bb for a in As}
        for c in Bs:
            if weak:
                srcs = [a.bb for a in As]
                back = [a for a in As if a.bb in b.after(c.bb)]
                p = b.path_avoiding(srcs, [c.bb], doms) if checked else None
                ok = not back and p is None and bool(doms)
                why = (f"{b_name} can run before {a_name}" if back else
                       f"{b_name} reachable after a failed/unchecked {a_name}: {b.show_path(p) if p else ''}")
            elif start is not None:
                Ss = b.calls_to(start)
                if not ctx.anchor(rule, f"{root}: start calls {short(start if isinstance(start, str) else start[0])}", Ss, 1):
                    allok = False
                    continue
                p = b.path_avoiding([x.bb for x in Ss], [c.bb], doms)
                ok = bool(doms) and p is None
                why = f"{b_name} reachable after the start call without a successful {a_name}: {b.show_path(p) if p else ''}"
            else:
                ok = bool(doms) and b.set_dominated(c.bb, doms)
                p = None if ok else b.path_avoiding([0], [c.bb], doms)
                why = (f"{b_name} reachable without {'a successful ' if checked else ''}{a_name}: "
                       f"{b.show_path(p)[-12:] if p else '(no such call in this body)'}")
            allok &= ctx.ob(rule, f"{root}|{a_name}<{b_name}", ok,
                            f"{a_name} ({'?-checked, ' if checked else ''}{len(As)} site(s)) precedes {b_name}"
                            f"{' whenever it runs' if weak else (' on every path from the start call' if start else ' on every path')}"
                            if ok else why, where=c.where())
    return allok


# ---------------------------------------------------------------------------
# path-sensitive reachability: conditional constant propagation of bool locals
# and enum discriminants along paths (a finite product-graph search; no solver)


def place_key(p):
    out = [str(p[0])]
    for e in p[1:]:
        if e == "*" or e == "~":
            continue
        if isinstance(e, list) and e[0] == "f":
            out.append(f".{e[1]}")
        elif isinstance(e, list) and e[0] == "d":
            out.append(f"@{e[1]}")
        else:
            out.append("[]")
    return "".join(out)


class PathExplorer:
    """Explore the edge-split CFG of one body keeping, per path, the known
    values of bool locals and the facts learned at branches about selected
    *origins*: ('call', bb) = the boolean produced by the call at bb (after
    `?`/await/!), ('discr', placekey) = discriminant of a place.  Infeasible
    branch combinations on those values are pruned.  Everything not understood
    is treated as unknown (both edges taken): the search over-approximates the
    feasible paths, so a rule that finds no bad path is sound w.r.t. feasible
    paths, and may still report an infeasible one (never the other way)."""

    MAX_STATES = 200000

    def __init__(self, F, body, origins_of_interest=None):
        self.F = F
        self.b = body
        self.sl = F.slicer(body.id)
        self.interest = origins_of_interest  # None = keep all facts
        self._origin_cache = {}

    def _keep(self, origin):
        return self.interest is None or origin in self.interest

    def origin_of_term(self, term):
        """(origin, negated) of a boolean/discriminant term, or None"""
        neg = False
        t = term
        for _ in range(20):
            t = strip(t)
            if isinstance(t, tuple) and t[0] == "un" and t[2] == "Not":
                neg = not neg
                t = t[1]
                continue
            break
        if isinstance(t, tuple) and t[0] == "call" and t[3] and t[3][0] == self.b.id:
            return (("call", t[3][1]), neg)
        return None

    def _rv_value(self, rv, bb, env):
        k = rv["k"]
        if k == "use":
            o = rv["o"]
            if o[0] == "k":
                v = o[1].get("v")
                if isinstance(v, bool):
                    return ("c", 1 if v else 0)
                if isinstance(v, int):
                    return ("c", v)
                return None
            p = o[1]
            if len(p) == 1 and ("L", p[0]) in env:
                return env[("L", p[0])]
            og = self.origin_of_term(self.sl.operand(o, at=bb))
            if og:
                return ("r", og[0], og[1])
            return None
        if k == "un" and rv["op"] == "Not":
            o = rv["o"]
            p = op_place(o)
            if p is not None and len(p) == 1 and ("L", p[0]) in env:
                v = env[("L", p[0])]
                if v[0] == "c":
                    return ("c", 0 if v[1] else 1)
                return ("r", v[1], not v[2])
            og = self.origin_of_term(self.sl.operand(o, at=bb))
            if og:
                return ("r", og[0], not og[1])
            return None
        if k == "discr":
            return ("r", ("discr", place_key(rv["p"])), False)
        return None

    def _apply_block(self, bb, env):
        """returns new env after the statements of block bb (env is a dict copy)"""
        blk = self.b.blocks[bb]
        for s in blk["s"]:
            l = s["l"]
            base = l[0]
            if len(l) == 1:
                v = self._rv_value(s["r"], bb, env)
                # a move out of a tracked local ends its tracking
                rv = s["r"]
                if rv["k"] == "use" and rv["o"][0] == "m":
                    p = rv["o"][1]
                    if len(p) == 1:
                        env.pop(("L", p[0]), None)
                if v is not None and (v[0] == "c" or self._keep(v[1]) or True):
                    env[("L", base)] = v
                else:
                    env.pop(("L", base), None)
            # any write into a place invalidates discriminant facts about it
            pk = str(base)
            for key in [k for k in env if k[0] == "F" and k[1][0] == "discr" and
                        (k[1][1] == pk or k[1][1].startswith(pk + ".") or k[1][1].startswith(pk + "@"))]:
                # writing a *different* local's temp never matches; writing the base local does
                del env[key]
        return env

    def run(self, srcs, targets, avoid=(), waypoints=()):
        """returns list of (target_node, facts_dict, path) for every distinct (target, facts) reached.
        `waypoints`: nodes whose passage is remembered per path as fact ('W', node) -> 1."""
        b = self.b
        targets = set(targets)
        avoid = set(avoid)
        waypoints = set(waypoints)
        results = {}
        start_env = {}
        seen = set()
        dq = deque()
        for s in srcs:
            st = (s, frozenset(start_env.items()))
            seen.add(st)
            dq.append((s, start_env, (s,)))
        n = 0
        while dq:
            node, env, path = dq.popleft()
            n += 1
            if n > self.MAX_STATES:
                results[("overflow",)] = (None, {"overflow": True}, list(path))
                break
            if node in avoid:
                continue
            if node in waypoints and ("F", ("W", node)) not in env:
                env = dict(env)
                env[("F", ("W", node))] = 1
            if node in targets:
                facts = {k[1]: v for k, v in env.items() if k[0] == "F"}
                key = (node, frozenset(facts.items()))
                if key not in results:
                    results[key] = (node, facts, list(path))
                # keep going: other targets may lie beyond
            succs = []
            if node < b.n:
                env2 = self._apply_block(node, dict(env))
                t = b.blocks[node]["t"]
                if t["k"] == "switch":
                    succs = self._switch(node, t, env2)
                else:
                    if t["k"] == "call" and "d" in t:
                        d = t["d"]
                        if len(d) == 1:
                            # the local now holds this call's own result
                            env2[("L", d[0])] = ("r", ("call", node), False)
                        else:
                            env2.pop(("L", d[0]), None)
                        pk = str(d[0])
                        for key in [k for k in env2 if k[0] == "F" and k[1][0] == "discr" and
                                    (k[1][1] == pk or k[1][1].startswith(pk + ".") or k[1][1].startswith(pk + "@"))]:
                            del env2[key]
                    succs = [(y, env2) for y in b.succ.get(node, ())]
            else:
                succs = [(y, env) for y in b.succ.get(node, ())]
            for y, e in succs:
                st = (y, frozenset(e.items()))
                if st in seen:
                    continue
                seen.add(st)
                dq.append((y, e, path + (y,)))
        return list(results.values())

    def _switch(self, bb, t, env):
        b = self.b
        o = t["o"]
        p = op_place(o)
        val = None
        if p is not None and len(p) == 1:
            val = env.get(("L", p[0]))
            if val is None:
                og = self.origin_of_term(self.sl.operand(o, at=bb))
                if og:
                    val = ("r", og[0], og[1])
            if o[0] == "m":
                env = dict(env)
                env.pop(("L", p[0]), None)
        listed = [int(v) for v, _ in t["vals"]]
        edges = [(v, b.edge_node(bb, v)) for v in listed] + [("else", b.edge_node(bb, "else"))]
        is_bool = p is not None and len(p) == 1 and b.locals[p[0]] == "bool"
        out = []
        if val is None:
            return [(e, env) for _, e in edges]
        if val[0] == "c":
            c = val[1]
            for v, e in edges:
                if (v == c) or (v == "else" and c not in listed):
                    out.append((e, env))
            return out
        origin, neg = val[1], val[2]
        known = env.get(("F", origin))
        for v, e in edges:
            # the fact this edge asserts about the origin
            if is_bool or origin[0] == "call":
                truth = (v != 0) if v != "else" else (0 in listed)
                if v == "else" and 0 not in listed:
                    truth = False if 1 in listed else None
                if truth is None:
                    out.append((e, env))
                    continue
                if neg:
                    truth = not truth
                fact = ("eq", 1 if truth else 0)
            else:
                fact = ("eq", v) if v != "else" else ("ne", tuple(listed))
            if known is not None:
                if not _consistent(known, fact):
                    continue
                if known[0] == "eq":
                    out.append((e, env))
                    continue
            if self._keep(origin):
                e2 = dict(env)
                e2[("F", origin)] = fact if not (known and known[0] == "ne" and fact[0] == "ne") else \
                    ("ne", tuple(sorted(set(known[1]) | set(fact[1]))))
                out.append((e, e2))
            else:
                out.append((e, env))
        return out


def _consistent(known, fact):
    if known[0] == "eq" and fact[0] == "eq":
        return known[1] == fact[1]
    if known[0] == "eq" and fact[0] == "ne":
        return known[1] not in fact[1]
    if known[0] == "ne" and fact[0] == "eq":
        return fact[1] not in known[1]
    return True


def referent_place(body, operand):
    """for an operand that is a temp defined once as `&place` / `&mut place` (or a copy of such), the place"""
    for _ in range(6):
        p = op_place(operand)
        if p is None or len(p) != 1:
            return None
        ds = body.defs[0].get(p[0], [])
        if len(ds) != 1 or ds[0][2] != "assign":
            return None
        rv = ds[0][3]
        if rv["k"] == "ref":
            rp = rv["p"]
            # `&*tmp` reborrow: keep resolving tmp
            if len(rp) == 2 and rp[1] == "*":
                inner = referent_place(body, ["c", [rp[0]]])
                if inner is not None:
                    return inner
            return rp
        if rv["k"] == "use":
            operand = rv["o"]
            continue
        return None
    return None


def predicate_summary(F, fid):
    """If `fid` is a `fn(&self) -> bool` that returns true exactly on one enum variant of *self
    (the shape of `matches!(self, Enum::V ..)`), return (adt, variant_name); else None."""
    b = F.body(fid)
    if b is None or b.argc < 1:
        return None
    true_blocks, false_blocks = [], []
    for i, blk in enumerate(b.blocks):
        if blk.get("c") or i not in b.reachable:
            continue
        for s in blk["s"]:
            if s["l"] == [0]:
                rv = s["r"]
                c = op_const(rv["o"]) if rv["k"] == "use" else None
                if c is None or not isinstance(c.get("v"), bool):
                    return None
                (true_blocks if c["v"] else false_blocks).append(i)
    if not true_blocks:
        return None
    for bb, t in b.switches():
        ds = b.discr_source(bb)
        if not ds or not ds[1] or not ds[2] or ds[0][0] != 1:
            continue
        for val, name in ds[2].items():
            e = b.variant_edge(bb, name)
            if e is None:
                continue
            if all(b.set_dominated(tb, {e}) for tb in true_blocks) and \
                    all(b.path_avoiding([e], [fb]) is None for fb in false_blocks):
                return (ds[1], name, val)
    return None


def body_accesses(body):
    """yield (bb, kind, place, line) for every place mentioned in a body (non-cleanup blocks).
    kind in read/move/shared/mut/fake/write/discr/drop/callret"""
    for i, blk in enumerate(body.blocks):
        if blk.get("c"):
            continue

        def ops(o, ln):
            if o[0] == "c":
                yield (i, "read", o[1], ln)
            elif o[0] == "m":
                yield (i, "move", o[1], ln)

        for s in blk["s"]:
            ln = s.get("ln", 0)
            yield (i, "write", s["l"], ln)
            rv = s["r"]
            k = rv["k"]
            if k in ("use", "cast", "un", "repeat"):
                yield from ops(rv["o"], ln)
            elif k == "bin":
                yield from ops(rv["a"], ln)
                yield from ops(rv["b"], ln)
            elif k in ("ref",):
                yield (i, rv["m"], rv["p"], ln)
            elif k == "rawptr":
                yield (i, "mut", rv["p"], ln)
            elif k == "discr":
                yield (i, "discr", rv["p"], ln)
            elif k == "agg":
                for o in rv["o"]:
                    yield from ops(o, ln)
        t = blk["t"]
        ln = t.get("ln", 0)
        if t["k"] in ("call", "tailcall"):
            for a in t["a"]:
                yield from ops(a, ln)
            if "d" in t:
                yield (i, "callret", t["d"], ln)
        elif t["k"] == "switch":
            yield from ops(t["o"], ln)
        elif t["k"] == "drop":
            yield (i, "drop", t["p"], ln)


def place_has_field(p, adt, field):
    return any(isinstance(e, list) and e[0] == "f" and len(e) >= 5 and e[3] == adt and e[2] == field for e in p[1:])


def field_writers(F, adt, field, kinds=("write", "mut", "callret")):
    """families (and sites) that write / mutably borrow `adt.field` (directly or a sub-place of it)"""
    out = []
    rows = F.q("SELECT DISTINCT fn FROM field_access WHERE adt=? AND field=?", (adt, field))
    for r in rows:
        b = F.body(r["fn"])
        for (bb, kind, p, ln) in body_accesses(b):
            if kind in kinds and place_has_field(p, adt, field):
                out.append((b, bb, kind, p, ln))
    return out


def fields_touched(F, root, adts, kinds, depth=2, crates=("jj_lib",)):
    """(adt, field) accessed with one of `kinds` inside cone(root) up to `depth` call levels"""
    cone = F.cg.cone([root], crates=crates, max_depth=depth)
    out = set()
    if not cone:
        return out
    roots = list(cone)
    for i in range(0, len(roots), 400):
        chunk = roots[i:i + 400]
        ph = ",".join("?" * len(chunk))
        for r in F.q(f"SELECT DISTINCT adt, field, kind FROM field_access WHERE root IN ({ph})", chunk):
            if r["adt"] in adts and r["kind"] in kinds:
                out.add((r["adt"], r["field"]))
    return out


READ_KINDS = ("read", "move", "shared", "through", "fake", "discr")
WRITE_KINDS = ("write", "mut", "mut-through", "write-through")


# ---------------------------------------------------------------------------
# format_args! templates (packed byte encoding of this toolchain) -> pieces


def decode_template(s):
    """packed template -> list of ('lit', text) | ('arg',) ; None if the encoding is not understood"""
    out = []
    i = 0
    n = len(s)
    while i < n:
        b = ord(s[i])
        if b == 0:
            return out
        if b < 0x80:
            out.append(("lit", s[i + 1:i + 1 + b].encode("latin-1").decode("utf-8", "replace")))
            i += 1 + b
        elif b == 0xC0:
            out.append(("arg",))
            i += 1
        else:
            # placeholder with explicit options: not needed by the rules; give up on this template
            return None
    return out


def format_sites(F, body):
    """[(call site of fmt::Arguments::new, [('lit', text) | ('arg', term)])] for every format_args! in the body"""
    sl = F.slicer(body.id)
    res = []
    for c in body.calls:
        if c.cleanup or not name_matches(c.res or c.decl or "", "re:^std::fmt::Arguments::<'a>::new$"):
            continue
        t = strip(sl.call_arg(c, 0))
        if not (isinstance(t, tuple) and t[0] == "const" and isinstance(t[1], str)):
            continue
        pieces = decode_template(t[1])
        if pieces is None:
            res.append((c, None))
            continue
        args = strip(sl.call_arg(c, 1))
        arg_terms = []
        if isinstance(args, tuple) and args[0] == "call" and args[1] == "[array]":
            for a in args[2]:
                a = strip(a)
                if isinstance(a, tuple) and a[0] == "call" and a[2]:
                    arg_terms.append(a[2][0])
                else:
                    arg_terms.append(a)
        out = []
        k = 0
        for p in pieces:
            if p[0] == "lit":
                out.append(p)
            else:
                out.append(("arg", arg_terms[k] if k < len(arg_terms) else T_unknown("fmtarg")))
                k += 1
        res.append((c, out))
    return res


def format_prefix(pieces):
    """leading constant text of a decoded format site (literals and constant string arguments)"""
    s = ""
    for p in pieces:
        if p[0] == "lit":
            s += p[1]
        else:
            t = strip(p[1])
            if isinstance(t, tuple) and t[0] == "const" and isinstance(t[1], str):
                s += t[1]
            else:
                break
    return s


def format_shape(pieces):
    """template with constant args inlined and other args shown as {}"""
    s = ""
    for p in pieces:
        if p[0] == "lit":
            s += p[1]
        else:
            t = strip(p[1])
            if isinstance(t, tuple) and t[0] == "const" and isinstance(t[1], str):
                s += t[1]
            else:
                s += "{}"
    return s
