#!/bin/sh
# Build the driver and warm the dependency cache + fact base for the current tree (offline).
set -e
cd "$(dirname "$0")"
export CARGO_NET_OFFLINE=true
(cd driver && cargo +nightly build --offline 2>&1 | tail -3)
./check setup
