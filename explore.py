#!/usr/bin/env python3
"""dev helper: ./explore.py calls <fn-regex> | terms <fn-id> <callee-regex> | fn <regex>"""
import sys
sys.path.insert(0, '/verif')
from jjv.facts import ensure_facts
from jjv.lib import *
F = Facts(ensure_facts())
cmd = sys.argv[1]
if cmd == 'fn':
    for f in F.find_fns('re:' + sys.argv[2]):
        r = F.fns[f]
        print(f, r['vis'], r['kind'], f"{r['file']}:{r['lo']}")
elif cmd == 'calls':
    for f in F.find_fns('re:' + sys.argv[2]):
        b = F.body(f)
        print('==', f)
        for c in b.calls:
            if c.cleanup: continue
            if len(sys.argv) > 3 and not re.search(sys.argv[3], c.res or c.decl or ''): continue
            print(f"  bb{c.bb} L{c.line} {c.res or c.decl} {'VIRT' if c.virt else ''}{' decl='+c.decl if c.res and c.decl!=c.res else ''}")
elif cmd == 'terms':
    for f in F.find_fns('re:' + sys.argv[2]):
        b = F.body(f)
        sl = F.slicer(f, with_mutators=True)
        for c in b.calls:
            if c.cleanup: continue
            if not re.search(sys.argv[3], c.res or c.decl or ''): continue
            print(f"== {f} bb{c.bb} L{c.line} {c.res or c.decl}")
            for i, a in enumerate(c.args):
                print(f"   arg{i}: {show(sl.operand(a, at=c.bb))}")
elif cmd == 'callers':
    for c in F.all_calls_to('re:' + sys.argv[2]):
        print(c)
elif cmd == 'mir':
    b = F.body(sys.argv[2])
    for i, blk in enumerate(b.blocks):
        print(f"bb{i}{' (cleanup)' if blk.get('c') else ''}:")
        for s in blk['s']:
            print("   ", show_place(s['l'], b.names), '=', json.dumps(s['r'])[:300])
        print("   ->", json.dumps(blk['t'])[:400])
