#!/usr/bin/env python3
"""Regenerate MANIFEST.json from tables/claims.json (claimed checks) and tables/not_applicable.json."""
import json, os
V = os.path.dirname(os.path.abspath(__file__))
props = [json.loads(l) for l in open(os.path.join(V, "properties.jsonl"))]
claims = json.load(open(os.path.join(V, "tables", "claims.json")))
na = json.load(open(os.path.join(V, "tables", "not_applicable.json")))
checks, nas = [], []
for p in props:
    pid = p["id"]
    if pid in claims and os.path.exists(os.path.join(V, "rules", pid + ".py")):
        c = claims[pid]
        checks.append({
            "property_id": pid,
            "quick_cmd": f"./check {pid} --tier quick",
            "thorough_cmd": f"./check {pid} --tier thorough",
            "evidence_file": f"/verif/evidence/{pid}.json",
            "replay_cmd_template": f"./check {pid} --replay {{path}}",
            "engine": "jjv-static",
            "level_claimed": {"category": "other", "text": c["text"], "design_ref": f"DESIGN.md §5 {pid}"},
            "level_note": c["note"],
            "technique": c["technique"],
        })
    else:
        nas.append({"property_id": pid, "reason": na.get(pid) or ("static rules designed (DESIGN.md §5 %s) but not built yet; not claimed" % pid)})
m = {
    "version": 1,
    "setup_cmd": "./setup.sh",
    "hooks": {"guard": "jj_vcs_jj_verif", "enable": "none: the static checks read the unmodified sources; no hooks are compiled in",
              "baseline_off_cmd": "cd /repo && cargo nextest run --workspace --no-fail-fast --offline",
              "source_commits": [], "add_only": True},
    "engines": [{"name": "jjv-static", "path": "/verif/check",
                 "serves_properties": [c["property_id"] for c in checks],
                 "kind_free_text": "rustc_private MIR fact dumper (driver/) run under cargo +nightly check via RUSTC_WORKSPACE_WRAPPER; "
                                   "facts in SQLite keyed by source hash; per-property Python rules (rules/Cxx.py): dominance / "
                                   "must-pass-through on edge-split CFGs, who-may-call, field coverage, provenance terms, table agreement"}],
    "checks": checks,
    "notes": "Technique family: static analysis only. Every check re-extracts facts when any analysed source file of /repo changed "
             "(sha256 over core/lib/cli sources + Cargo.toml/Cargo.lock + driver binary). Each claim is partial: the clause decided is "
             "named in level_claimed.text, the undecided rest in level_note and evidence coverage.not_decided.",
    "not_applicable": nas,
}
json.dump(m, open(os.path.join(V, "MANIFEST.json"), "w"), indent=1)
print(len(checks), "checks,", len(nas), "not applicable")
