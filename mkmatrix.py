#!/usr/bin/env python3
"""Regenerate the 'which checks catch which changes' tables in DESIGN.md from mutants/ and seeded/ (between markers)."""
import json, os, re, glob
V = os.path.dirname(os.path.abspath(__file__))
lines = []
lines.append("### Agent-seeded changes (independent sub-agents given only the property text)\n")
lines.append("| seed | property | needs to manifest | first run | now | rules that fire |")
lines.append("|---|---|---|---|---|---|")
for d in sorted(glob.glob(os.path.join(V, "seeded", "*", "meta.json"))):
    m = json.load(open(d))
    name = os.path.basename(os.path.dirname(d))
    fired = sorted({re.sub(r" \[.*", "", f.replace("FAILED ", "")) for f in m.get("rules_fired", [])})
    fr = m.get("first_run") or ("missed; rule added afterwards" if any("added after" in f for f in m.get("rules_fired", []))
                               else "detected")
    fr = "missed → rule added" if fr.startswith("missed") else "detected"
    lines.append(f"| `{name}` | {m['property']} | {m.get('needs_to_manifest','')[:160]} | {fr} | "
                 f"{'**detected**' if m.get('detected_by_static_check') else 'missed (outside the decided clauses)'} | "
                 f"{', '.join(fired[:3])} |")
lines.append("")
lines.append("### Hand-seeded single-edit mutants (checker self-test, run by every `--tier thorough`)\n")
lines.append("| property | mutants that must be detected | behaviour-preserving controls that must stay silent |")
lines.append("|---|---|---|")
for pd in sorted(glob.glob(os.path.join(V, "mutants", "C*"))):
    ps = sorted(os.listdir(pd))
    bad = [p[:-6] for p in ps if p.endswith(".patch") and not p.startswith("ok_")]
    ok = [p[:-6] for p in ps if p.startswith("ok_")]
    lines.append(f"| {os.path.basename(pd)} | {', '.join(bad)} | {', '.join(ok) or '-'} |")
text = "\n".join(lines) + "\n"
p = os.path.join(V, "DESIGN.md")
s = open(p).read()
a, b = "<!-- MATRIX-BEGIN -->", "<!-- MATRIX-END -->"
if a in s:
    s = s[:s.index(a) + len(a)] + "\n" + text + s[s.index(b):]
    open(p, "w").write(s)
    print("matrix updated")
else:
    print(text)
