#!/bin/bash
# verify_seed.sh <worktree> <seed out dir> <nextest filter for the demo> [extra nextest args for the regression subset]
# 1. demo passes without the change; 2. demo fails with it; 3. the chosen subset of existing tests still passes with it.
set -u
WT=$1; SD=$2; FILTER=$3; shift 3
export CARGO_TARGET_DIR=$WT/target CARGO_NET_OFFLINE=true CARGO_INCREMENTAL=0
cd $WT && git checkout -q -- . && git clean -fdq -e out -e target
echo "== apply demo only"; git apply $SD/demo.diff || { echo "DEMO-APPLY-FAILED"; exit 2; }
cargo nextest run --offline -p jj-lib -p jj-cli $FILTER 2>&1 | tail -4; echo "DEMO_WITHOUT_CHANGE_EXIT=${PIPESTATUS[0]}"
echo "== apply change"; git apply $SD/patch.diff || { echo "PATCH-APPLY-FAILED"; exit 2; }
cargo nextest run --offline -p jj-lib -p jj-cli $FILTER 2>&1 | tail -6; echo "DEMO_WITH_CHANGE_EXIT=${PIPESTATUS[0]}"
echo "== existing tests with the change ($*)"
cargo nextest run --offline --no-fail-fast "$@" 2>&1 | grep -E "^\s+(FAIL|Summary)|tests run" | sort | uniq -c | sort -rn | head -400; echo "SUBSET_EXIT=${PIPESTATUS[0]}"
git checkout -q -- . && git clean -fdq -e out -e target
